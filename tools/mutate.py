#!/venv/bin/python
"""Mechanical mutation sample: how many small code changes that the repository's tests accept do the checks reject?

  tools/mutate.py gen  N [SEED] [OP ...] - sample N single-token mutants (optionally only of the given operators) of the functions the properties are anchored in,
                                      write them to /verif/seeded/mechanical/<id>.diff (+ index.json)
  tools/mutate.py run  [--only ID ...] [--jobs J] [--budget S]
                                    - for every mutant without a result: scratch worktree of /repo (outside /repo
                                      and /verif), apply, run the 76-test baseline (stop at first failure); if the
                                      tests accept it, run the quick checks that cover the mutated file with
                                      VERIF_REPO pointing at the worktree; record in mechanical/RESULTS.json;
                                      remove the worktree
  tools/mutate.py table             - summary

Operators: comparison boundary (< <= > >=), equality flip (== !=), and/or, +1/-1 constant shifts, `not` removal,
`if c` -> `if not c`, deletion of a simple statement. Unlike the sub-agents' changes (seeded/<id>/), these are not
written to be realistic or to need a rare conjunction, and some are equivalent to the original program; they measure
breadth.
"""
import argparse
import ast
import json
import os
import random
import subprocess
import sys
import tempfile
from concurrent.futures import ThreadPoolExecutor

VERIF = os.path.dirname(os.path.dirname(os.path.abspath(__file__)))
REPO = os.environ.get("VERIF_REPO", "/repo")
MDIR = os.path.join(VERIF, "seeded", "mechanical")

# file -> (functions or None for all, checks that exercise it)
SCHED = ["C02", "C03", "C04", "C05", "C06", "C07", "C09", "C14", "C17", "C08"]
TARGETS = {
    "infretis/classes/repex.py": (None, SCHED),
    "infretis/scheduler.py": (None, ["C03", "C05", "C06", "C17", "C08"]),
    "infretis/setup.py": (["setup_config", "trim_data_file", "setup_internal", "setup_runner", "check_config"],
                          ["C06", "C08", "C17", "C05"]),
    "infretis/asyncrunner.py": (None, ["C17"]),
    "infretis/core/tis.py": (None, ["C09", "C06", "C04", "C01"]),
    "infretis/core/core.py": (["make_dirs", "write_ensemble_restart", "create_external"], ["C08", "C14"]),
    "infretis/classes/path.py": (None, ["C09", "C14", "C06", "C08"]),
    "infretis/classes/formatter.py": (["PathStorage", "OrderFormatter", "OrderPathFormatter", "PathExtFormatter",
                                       "EnergyFormatter", "EnergyPathFormatter", "OutputFormatter"], ["C14", "C08", "C06"]),
    "infretis/classes/engines/enginebase.py": (["propagate", "add_to_path", "dump_config", "dump_frame",
                                                "draw_maxwellian_velocities", "snapshot_to_system"],
                                               ["C12", "C09", "C07"]),
    "infretis/classes/engines/engineparts.py": (["lammpstrj_reader", "xyz_reader", "ReadAndProcessOnTheFly",
                                                 "read_xyz_file", "write_xyz_trajectory"], ["C13", "C12"]),
    "infretis/classes/engines/lammps.py": (["_propagate_from", "read_lammpstrj", "_extract_frame",
                                            "_reverse_velocities", "modify_velocities", "write_lammpstrj"],
                                           ["C12", "C07"]),
    "infretis/classes/engines/cp2k.py": (["_propagate_from", "_extract_frame", "_reverse_velocities",
                                          "modify_velocities", "write_for_run_vel"], ["C12", "C07"]),
    "infretis/classes/engines/gromacs.py": (["_propagate_from", "get_gromacs_frames", "check_data", "read_remaining_trr",
                                             "read_trr_header", "read_trr_data", "_extract_frame", "modify_velocities",
                                             "_reverse_velocities", "check_poll", "stop", "__exit__"],
                                            ["C12", "C13", "C07"]),
    "infretis/classes/engines/turtlemdengine.py": (["_propagate_from", "modify_velocities", "_reverse_velocities",
                                                    "_extract_frame"], ["C12", "C07", "C06"]),
    "infretis/classes/engines/ase_engine.py": (["_propagate_from", "modify_velocities", "_reverse_velocities",
                                                "_extract_frame"], ["C12", "C07"]),
}
CMP = {ast.Lt: "<=", ast.LtE: "<", ast.Gt: ">=", ast.GtE: ">", ast.Eq: "!=", ast.NotEq: "=="}


def sh(cmd, **kw):
    return subprocess.run(cmd, capture_output=True, text=True, **kw)


def _seg(src_lines, node):
    return node.lineno, node.col_offset, node.end_lineno, node.end_col_offset


def candidates(path, funcs):
    src = open(os.path.join(REPO, path)).read()
    tree = ast.parse(src)
    lines = src.splitlines(keepends=True)
    out = []

    def in_scope(stack):
        return funcs is None or any(n in funcs for n in stack)

    def visit(node, stack):
        if isinstance(node, (ast.FunctionDef, ast.AsyncFunctionDef, ast.ClassDef)):
            stack = stack + [node.name]
        if in_scope(stack) and stack:
            if isinstance(node, ast.Compare) and len(node.ops) == 1 and type(node.ops[0]) in CMP:
                left_end = (node.left.end_lineno, node.left.end_col_offset)
                right_start = (node.comparators[0].lineno, node.comparators[0].col_offset)
                if left_end[0] == right_start[0]:
                    out.append(("cmp", left_end[0], left_end[1], right_start[1], " " + CMP[type(node.ops[0])] + " "))
            elif isinstance(node, ast.BoolOp) and len(node.values) == 2:
                a, b = node.values
                if a.end_lineno == b.lineno:
                    new = " or " if isinstance(node.op, ast.And) else " and "
                    out.append(("bool", a.end_lineno, a.end_col_offset, b.col_offset, new))
            elif isinstance(node, ast.BinOp) and isinstance(node.op, (ast.Add, ast.Sub)) \
                    and isinstance(node.right, ast.Constant) and node.right.value == 1 and node.lineno == node.end_lineno:
                r = node.right
                out.append(("const", r.lineno, r.col_offset, r.end_col_offset, "0"))
                out.append(("const", r.lineno, r.col_offset, r.end_col_offset, "2"))
            elif isinstance(node, ast.UnaryOp) and isinstance(node.op, ast.Not) and node.lineno == node.end_lineno:
                out.append(("not", node.lineno, node.col_offset, node.operand.col_offset, ""))
            elif isinstance(node, (ast.If, ast.While)) and node.test.lineno == node.test.end_lineno \
                    and not isinstance(node.test, ast.Constant):
                t = node.test
                seg = lines[t.lineno - 1][t.col_offset:t.end_col_offset]
                out.append(("negate", t.lineno, t.col_offset, t.end_col_offset, f"not ({seg})"))
            elif isinstance(node, (ast.Expr, ast.Assign, ast.AugAssign)) and node.lineno == node.end_lineno \
                    and not (isinstance(node, ast.Expr) and isinstance(node.value, ast.Constant)):
                txt = lines[node.lineno - 1][node.col_offset:node.end_col_offset]
                if not txt.startswith(("logger.", "print(", "msg", "self.print", "log.")):
                    out.append(("delete", node.lineno, node.col_offset, node.end_col_offset, "pass"))
        for child in ast.iter_child_nodes(node):
            visit(child, stack)

    visit(tree, [])
    return src, out


def make_diff(path, src, cand):
    kind, line, c0, c1, new = cand
    lines = src.splitlines(keepends=True)
    old_line = lines[line - 1]
    lines[line - 1] = old_line[:c0] + new + old_line[c1:]
    mutated = "".join(lines)
    try:
        ast.parse(mutated)
    except SyntaxError:
        return None
    with tempfile.TemporaryDirectory() as td:
        a, b = os.path.join(td, "a"), os.path.join(td, "b")
        open(a, "w").write(src)
        open(b, "w").write(mutated)
        d = sh(["diff", "-u", "--label", "a/" + path, "--label", "b/" + path, a, b]).stdout
    return d, old_line.strip(), lines[line - 1].strip()


def gen(n, seed, ops=None):
    os.makedirs(MDIR, exist_ok=True)
    rng = random.Random(seed)
    pool = []
    for path, (funcs, checks) in TARGETS.items():
        src, cands = candidates(path, funcs)
        for c in cands:
            if ops and c[0] not in ops:
                continue
            pool.append((path, c))
    rng.shuffle(pool)
    index_p = os.path.join(MDIR, "index.json")
    index = json.load(open(index_p)) if os.path.isfile(index_p) else {}
    srcs = {}
    made = 0
    for path, c in pool:
        if made >= n:
            break
        src = srcs.setdefault(path, open(os.path.join(REPO, path)).read())
        r = make_diff(path, src, c)
        if r is None:
            continue
        d, old, new = r
        mid = f"M{seed}-{os.path.basename(path)[:-3]}-{c[1]}-{c[0]}-{len(index):03d}"
        if any(v["file"] == path and v["line"] == c[1] and v["new"] == new for v in index.values()):
            continue
        open(os.path.join(MDIR, mid + ".diff"), "w").write(d)
        index[mid] = {"file": path, "line": c[1], "op": c[0], "old": old, "new": new,
                      "checks": TARGETS[path][1]}
        made += 1
    json.dump(index, open(index_p, "w"), indent=1)
    print(f"{made} mutants written ({len(pool)} candidates in scope)")


def run_one(mid, meta, budget):
    wt = tempfile.mkdtemp(prefix=f"mut_{mid}_", dir="/tmp")
    os.rmdir(wt)
    r = sh(["git", "-C", REPO, "worktree", "add", "--detach", wt, "HEAD"])
    if r.returncode:
        return {"error": "worktree: " + r.stderr[:200]}
    try:
        a = sh(["git", "-C", wt, "apply", os.path.join(MDIR, mid + ".diff")])
        if a.returncode:
            return {"error": "apply: " + a.stderr[:200]}
        env = dict(os.environ, VERIF_REPO=wt, VERIF_BASELINE_FAILFAST="1", PYTHONDONTWRITEBYTECODE="1")
        b = sh(["/venv/bin/python", os.path.join(VERIF, "tools", "baseline.py")], env=env, cwd=VERIF)
        tests_pass = b.returncode == 0
        out = {"tests": "pass" if tests_pass else "fail", "tests_tail": b.stdout.strip().splitlines()[-1:][0][:160] if b.stdout.strip() else ""}
        if not tests_pass:
            return out
        caught, details = [], {}
        for prop in meta["checks"]:
            env2 = dict(os.environ, VERIF_REPO=wt, VERIF_SEED="20261001", PYTHONHASHSEED="0")
            cmd = [os.path.join(VERIF, "check"), prop, "--no-evidence"]
            if prop != "C01":
                cmd += ["--budget", str(budget)]
            p = sh(cmd, env=env2, cwd=VERIF)
            viol = [l for l in p.stdout.splitlines() if l.startswith("VIOLATION")]
            for v in viol:
                rp = v.split("replay=")[1]
                if os.path.isfile(rp):
                    os.remove(rp)
            if viol:
                caught.append(prop)
                import re
                m = re.findall(r"^\[%s\] ([a-z_0-9]+): (.*)$" % prop, p.stdout, re.M)
                details[prop] = (m[-1][0] + ": " + m[-1][1][:160]) if m else ""
                break                     # one rejecting check is enough
            if p.returncode == 2:
                details[prop] = "HARNESS-ERROR " + p.stdout[-200:]
        out.update(caught_by=caught, details=details)
        return out
    finally:
        sh(["git", "-C", REPO, "worktree", "remove", "--force", wt])


def run(only, jobs, budget):
    index = json.load(open(os.path.join(MDIR, "index.json")))
    rp = os.path.join(MDIR, "RESULTS.json")
    results = json.load(open(rp)) if os.path.isfile(rp) else {}
    todo = [m for m in index if m not in results and (not only or m in only)]

    def work(mid):
        res = run_one(mid, index[mid], budget)
        return mid, res
    with ThreadPoolExecutor(jobs) as ex:
        for mid, res in ex.map(work, todo):
            results[mid] = res
            json.dump(results, open(rp, "w"), indent=1)
            print(mid, res.get("tests"), res.get("caught_by"), res.get("error", ""), flush=True)


def table():
    index = json.load(open(os.path.join(MDIR, "index.json")))
    rp = os.path.join(MDIR, "RESULTS.json")
    results = json.load(open(rp)) if os.path.isfile(rp) else {}
    done = {m: r for m, r in results.items() if "tests" in r}
    killed_by_tests = [m for m, r in done.items() if r["tests"] == "fail"]
    surv = [m for m, r in done.items() if r["tests"] == "pass"]
    caught = [m for m in surv if done[m].get("caught_by")]
    print(f"mutants with a result: {len(done)}; rejected by the repository's tests: {len(killed_by_tests)}; "
          f"accepted by the tests: {len(surv)}, of which rejected by a check: {len(caught)}, "
          f"accepted by tests and checks: {len(surv) - len(caught)}")
    print("| mutant | file:line | change | tests | rejected by | triage |")
    print("|---|---|---|---|---|---|")
    tri_p = os.path.join(MDIR, "TRIAGE.json")
    tri = json.load(open(tri_p)) if os.path.isfile(tri_p) else {}
    for m in sorted(surv):
        i, r = index[m], done[m]
        print(f"| {m} | {i['file']}:{i['line']} | `{i['old'][:60]}` -> `{i['new'][:60]}` | pass | "
              f"{', '.join(r.get('caught_by') or []) or '-'} | {tri.get(m, '')} |")


if __name__ == "__main__":
    ap = argparse.ArgumentParser()
    ap.add_argument("cmd", choices=["gen", "run", "table"])
    ap.add_argument("args", nargs="*")
    ap.add_argument("--only", nargs="*")
    ap.add_argument("--jobs", type=int, default=3)
    ap.add_argument("--budget", type=float, default=40)
    a = ap.parse_args()
    if a.cmd == "gen":
        gen(int(a.args[0]), int(a.args[1]) if len(a.args) > 1 else 1, a.args[2:] or None)
    elif a.cmd == "run":
        run(a.only, a.jobs, a.budget)
    else:
        table()
