#!/venv/bin/python
"""Print the markdown table of seeded changes and which checks caught them (from seeded/RESULTS.json)."""
import json
import os

VERIF = os.path.dirname(os.path.dirname(os.path.abspath(__file__)))
sdir = os.path.join(VERIF, "seeded")
res = json.load(open(os.path.join(sdir, "RESULTS.json")))
print("| seeded change | property | needs | caught by (quick, budget as recorded) | how it was reported |")
print("|---|---|---|---|---|")
for sid in sorted(res):
    meta = json.load(open(os.path.join(sdir, sid, "meta.json")))
    r = res[sid]
    if "checks" not in r:
        print(f"| {sid} | {meta['property']} | {meta['needs'][:140]} | ERROR {r.get('error')} | |")
        continue
    tgt = r["checks"].get(meta["property"], {})
    caught = ", ".join(r["caught_by"]) or "**missed**"
    print(f"| {sid} | {meta['property']} | {meta['needs'][:160]} | {caught} | {tgt.get('detail','')[:140].replace('|','/')} |")
