#!/bin/sh
# run every claimed check's quick command, one after the other
cd "$(dirname "$0")/.." || exit 2
rc=0
for p in C01 C02 C03 C04 C05 C06 C07 C08 C09 C12 C13 C14 C17; do
  ./check $p --tier quick > /tmp/quick_$p.log 2>&1
  e=$?
  echo "$p exit $e: $(grep "^\[$p\] runs\|^\[$p\] replicas\|VIOLATION\|KNOWN-FINDING\|HARNESS" /tmp/quick_$p.log | tail -3 | cut -c1-300)"
  [ $e -ne 0 ] && rc=1
done
exit $rc
