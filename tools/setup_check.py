#!/venv/bin/python
"""Setup: nothing to build. Verify the interpreter, the repo import and scratch space."""
import os
import sys

sys.path.insert(0, os.path.dirname(os.path.dirname(os.path.abspath(__file__))))
from sim import common  # noqa: E402

common.use_repo()
import numpy  # noqa: E402
import tomli_w  # noqa: E402

root = common.scratch_root()
os.rmdir(root)
os.makedirs(os.path.join(common.VERIF, "evidence"), exist_ok=True)
os.makedirs(os.path.join(common.VERIF, "replays"), exist_ok=True)
print("setup ok: python", sys.version.split()[0], "numpy", numpy.__version__, "repo", common.REPO)
