#!/venv/bin/python
"""Self tests of the machinery.

  determinism [N]  - for every check, run the first N cases of the default seed list in two fresh
                     interpreters (PYTHONHASHSEED=0 with 4 pool workers, PYTHONHASHSEED=1 with 16) and
                     compare event-log digests, signatures and verdicts.
  digests PROP N   - (internal) print one line per case.
"""
import importlib
import json
import os
import subprocess
import sys

VERIF = os.path.dirname(os.path.dirname(os.path.abspath(__file__)))
sys.path.insert(0, VERIF)
PROPS = ["C02", "C03", "C04", "C05", "C06", "C07", "C08", "C09", "C12", "C13", "C14", "C17"]


def digests(prop, n, nproc):
    from sim import common
    from sim.kernel import hash64
    common.use_repo()
    mod = importlib.import_module(f"checks.{prop.lower()}")
    seed = common.seed_from_env()
    cases = []
    for i in range(n):
        c = mod.make_case(hash64(seed, prop, i), i, "quick")
        c["known"] = common.load_known().get("known", [])
        if prop == "C08":
            c["second_p"], c["kill_p"] = 0.02, 0.02
            c["case_budget"] = 3000.0        # no wall-clock dependent skipping of crash states
        if prop == "C13":
            c["nmulti"] = 10
        cases.append(c)
    out = {}
    os.environ["VERIF_NPROC"] = str(nproc)
    for case, res in common.run_batch(mod.run, cases, 10**6, nproc=nproc, run_timeout=900):
        if res.get("harness_error"):
            out[case["seed"]] = "HARNESS:" + res["harness_error"][:200]
        else:
            out[case["seed"]] = [res.get("digest"), res.get("sig"),
                                 sorted((v["class"], v.get("site")) for v in res.get("violations", []))]
    for c in cases:
        print("DIGEST", json.dumps([c["seed"], out.get(c["seed"])], default=str))


def determinism(n):
    bad = 0
    for prop in PROPS:
        runs = []
        for hs, nproc in (("0", 4), ("1", 16)):
            env = dict(os.environ, PYTHONHASHSEED=hs, PYTHONDONTWRITEBYTECODE="1")
            p = subprocess.run([sys.executable, os.path.abspath(__file__), "digests", prop, str(n), str(nproc)],
                               env=env, capture_output=True, text=True, cwd=VERIF)
            lines = [l for l in p.stdout.splitlines() if l.startswith("DIGEST ")]
            if p.returncode != 0 or len(lines) != n:
                print(f"{prop}: run failed (exit {p.returncode}): {p.stderr[-800:]}")
                bad += 1
                runs.append(None)
                continue
            runs.append([json.loads(l[7:]) for l in lines])
        if None in runs:
            continue
        diff = [a for a, b in zip(*runs) if a != b]
        harness = [a for a in runs[0] if isinstance(a[1], str)]
        print(f"{prop}: {n} cases x 2 interpreters (hash seeds 0/1, 4/16 workers): "
              f"{'IDENTICAL' if not diff else str(len(diff)) + ' DIFFER'}"
              f"{' harness errors: ' + str(len(harness)) if harness else ''}")
        if diff:
            print("   first difference:", diff[0], "vs", [b for a, b in zip(*runs) if a != b][0])
            bad += 1
        bad += len(harness)
    return 1 if bad else 0


REACH = {
    "C01": ["overlap", "crash_with_inflight", "zero_swap_issued"],
    "C02": ["wf_unequal_weight_matrix", "overlap"],
    "C03": ["overlap", "crash_with_inflight", "zero_swap_issued", "completed_before_earlier_job"],
    "C04": ["overlap", "crash_with_inflight"],
    "C05": ["restart_load_checked", "overlap"],
    "C06": ["reissue_checked", "crash_with_inflight"],
    "C07": ["crash_with_inflight", "engine_stream_cases"],
    "C08": ["kill_cross_checked", "second_order_states", "restarted"],
    "C09": ["trial_len_eq_maxlen", "accepted_len_eq_maxlength"],
    "C12": ["torn_frame_at_poll", "several_frames_in_one_poll", "files_out_of_step", "empty_poll",
            "inproc_propagate_calls"],
    "C13": ["cuts_inside_a_frame"],
    "C14": ["old_path_files_deleted", "overlap"],
    "C17": ["runner_lifecycles", "fullstack_incarnations", "overlap"],
}
REACH_FAULTS = {
    "C03": ["crash_between_steps", "worker_exception", "stalled_job"],
    "C08": ["torn_write", "crash_state_restarted"],
    "C12": ["program_nonzero_exit", "finished_before_first_poll"],
    "C13": ["partial_write_visible_to_reader"],
    "C17": ["background_stalled", "crash_between_steps"],
}


def reach():
    """Every rare condition a check is meant to reach must have been hit in its last evidence file."""
    bad = 0
    for prop, names in sorted(REACH.items()):
        path = os.path.join(VERIF, "evidence", f"{prop}.json")
        if not os.path.isfile(path):
            print(f"{prop}: no evidence file")
            bad += 1
            continue
        cov = json.load(open(path))["coverage"]
        zero = [n for n in names if not cov.get("probes", {}).get(n)]
        zero += [n for n in REACH_FAULTS.get(prop, []) if not cov.get("faults_fired", {}).get(n)]
        print(f"{prop}: {'all reach probes hit' if not zero else 'STUCK AT ZERO: ' + str(zero)}")
        bad += len(zero)
    return 1 if bad else 0


if __name__ == "__main__":
    if len(sys.argv) >= 2 and sys.argv[1] == "reach":
        sys.exit(reach())
    if len(sys.argv) >= 2 and sys.argv[1] == "digests":
        digests(sys.argv[2], int(sys.argv[3]), int(sys.argv[4]))
        sys.exit(0)
    if len(sys.argv) >= 2 and sys.argv[1] == "determinism":
        sys.exit(determinism(int(sys.argv[2]) if len(sys.argv) > 2 else 48))
    print(__doc__)
    sys.exit(2)
