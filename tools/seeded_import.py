#!/venv/bin/python
"""Verify a candidate change written by a sub-agent and keep it under /verif/seeded/<id>/.

  tools/seeded_import.py ID PROPERTY PATCH DEMO "what it needs to manifest"

Steps (all in a fresh scratch worktree of /repo under /tmp, removed afterwards):
  1. the demonstration exits 0 on the unchanged tree,
  2. the patch applies, the package still imports,
  3. the demonstration exits non-zero with the patch,
  4. the repository's 76-test baseline passes with the patch (tools/baseline.py).
"""
import json
import os
import shutil
import subprocess
import sys
import tempfile

VERIF = os.path.dirname(os.path.dirname(os.path.abspath(__file__)))


def sh(cmd, **kw):
    return subprocess.run(cmd, capture_output=True, text=True, **kw)


def main():
    sid, prop, patch, demo, needs = sys.argv[1:6]
    wt = tempfile.mkdtemp(prefix=f"imp_{sid}_", dir="/tmp")
    os.rmdir(wt)
    r = sh(["git", "-C", "/repo", "worktree", "add", "--detach", wt, "HEAD"])
    if r.returncode:
        print("worktree failed", r.stderr)
        return 2
    ran = []
    try:
        src = open(demo).read()
        origin = os.path.dirname(os.path.abspath(demo))
        src = src.replace(origin, wt)                  # demos pin sys.path to their own worktree
        dpath = os.path.join(wt, "demo_seeded.py")
        with open(dpath, "w") as fh:
            fh.write(src)
        import re
        helpers = [f for f in os.listdir(origin) if f.endswith(".py") and f != os.path.basename(demo)
                   and not re.match(r"demo_[A-Z]\.py$", f) and os.path.isfile(os.path.join(origin, f))
                   and f not in ("setup.py", "conftest.py")]
        for h in helpers:                   # helper modules shared by several demos
            with open(os.path.join(origin, h)) as fh:
                htxt = fh.read().replace(origin, wt)
            with open(os.path.join(wt, h), "w") as fh:
                fh.write(htxt)
        env = dict(os.environ, PYTHONDONTWRITEBYTECODE="1")
        d0 = sh(["/venv/bin/python", dpath], cwd=wt, env=env, timeout=1200)
        ran.append(f"demo on unchanged tree: exit {d0.returncode}")
        if d0.returncode != 0:
            print(f"{sid}: REJECT demo fails on the unchanged tree (exit {d0.returncode}): {d0.stderr[-400:]}")
            return 1
        a = sh(["git", "-C", wt, "apply", os.path.abspath(patch)])
        if a.returncode:
            print(f"{sid}: REJECT patch does not apply: {a.stderr[:300]}")
            return 1
        touched = sh(["git", "-C", wt, "diff", "--stat"]).stdout.strip().splitlines()
        imp = sh(["/venv/bin/python", "-c", "import sys; sys.path.insert(0, %r); import infretis.scheduler, "
                  "infretis.setup, infretis.classes.engines.factory" % wt], cwd=wt)
        if imp.returncode:
            print(f"{sid}: REJECT does not import: {imp.stderr[-300:]}")
            return 1
        try:
            d1 = sh(["/venv/bin/python", dpath], cwd=wt, env=env, timeout=300)
            ran.append(f"demo with the patch: exit {d1.returncode}")
            code1 = d1.returncode
        except subprocess.TimeoutExpired:
            # the demo finished on the unchanged tree and hangs with the patch: a failure, too
            ran.append("demo with the patch: no exit within 300 s (hangs)")
            code1 = 124
        if code1 == 0:
            print(f"{sid}: REJECT demo passes with the patch")
            return 1
        b = sh(["/venv/bin/python", os.path.join(VERIF, "tools", "baseline.py")],
               env=dict(env, VERIF_REPO=wt), timeout=3000)
        ran.append("tools/baseline.py with the patch: " + b.stdout.strip().splitlines()[0] if b.stdout.strip() else "?")
        if b.returncode != 0:
            print(f"{sid}: REJECT baseline fails with the patch: {b.stdout[:600]}")
            return 1
        dest = os.path.join(VERIF, "seeded", sid)
        os.makedirs(dest, exist_ok=True)
        shutil.copy(patch, os.path.join(dest, "patch.diff"))
        shutil.copy(demo, os.path.join(dest, "demo.py"))
        for h in helpers:
            shutil.copy(os.path.join(origin, h), os.path.join(dest, h))
        meta = {"id": sid, "property": prop, "needs": needs, "files_touched": touched,
                "confirmed": ran, "demo_note": "demo.py pins sys.path to the scratch worktree it was written "
                "in; tools/seeded_import.py rewrites that path when it re-runs it",
                "origin": "independent sub-agent given only the property text and a scratch worktree"}
        with open(os.path.join(dest, "meta.json"), "w") as fh:
            json.dump(meta, fh, indent=1)
        print(f"{sid}: KEPT ({'; '.join(ran)})")
        return 0
    finally:
        sh(["git", "-C", "/repo", "worktree", "remove", "--force", wt])
        shutil.rmtree(wt, ignore_errors=True)


if __name__ == "__main__":
    sys.exit(main())
