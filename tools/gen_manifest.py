#!/usr/bin/env python3-vt
"""Write /verif/MANIFEST.json from the table below and validate it against the schema."""
import json
import os
import subprocess

VERIF = os.path.dirname(os.path.dirname(os.path.abspath(__file__)))

CHECKS = {
 "C12": ("exploration", "§4 C12",
         "Real LAMMPS / CP2K / GROMACS engine objects driven through EngineBase.propagate against simulated "
         "external programs (virtual time, seeded chunked output incl. torn frames and several frames per "
         "poll, late files, run over before the first poll, non-zero exits, files out of step, varying "
         "boxes), with the oracle computed from the program's ground truth; TurtleMD, ASE and the plug-in "
         "engine in-process with a file-based frame oracle and velocity-Verlet retrace.",
         "external binaries simulated at file-format/process-API level; physics irrelevant to the property.",
         "deterministic simulation: simulated external processes with seeded output timing and exit faults, ground-truth oracle"),
 "C13": ("exploration", "§4 C13",
         "Simulated MD writer appending a generated trajectory at byte granularity while the real on-the-fly "
         "reader (LAMMPS dump, CP2K xyz, GROMACS TRR via GromacsRunner with a simulated process and virtual "
         "sleep) is polled in between; every single cut position is enumerated per trajectory (sampled above "
         "a size cap) plus seeded multi-cut schedules.",
         "append-only writer; a text frame lacking only its final newline counts as complete.",
         "deterministic simulation: simulated writer with enumerated and seeded partial-write schedules against the real readers, prefix oracle"),
 "C08": ("fault_enumeration", "§4 C08",
         "File-system effect seam on the main process with snapshot enumeration: every effect boundary of "
         "every (selected) step and torn variants of every file flush give a crash state; each is "
         "restarted and continued under the restart oracle; a seeded subset is crashed a second time; 5% "
         "of the states are reproduced by a real os._exit kill and compared byte-for-byte.",
         "crash = death of main with kernel-buffered data surviving; no power-loss or disk-error model.",
         "deterministic simulation: crash-point enumeration at the file-system seam + seeded second-order crashes, restart-and-continue oracle"),
 "C01": ("exploration", "§4 C01",
         "Full simulated runs of the real scheduler on the lattice engine whose crossing probabilities are "
         "known exactly; scenario grid over move mixes, caps, worker counts, length-correlated completion "
         "orders, clean and crash restarts; R independent replicas per scenario, 6-sigma replica band with "
         "confirmation re-run.",
         "statistical: quick detects biases of a few percent, thorough below one percent; 4/S allowance for start-up and ratio-estimator bias.",
         "deterministic simulation: seeded multi-worker schedules and restart sequences, statistical oracle against closed-form values"),
 "C02": ("exploration", "§4 C02",
         "Observer on every P matrix the real scheduler computes in simulated multi-worker / wire-fencing "
         "histories, compared with exact permanent ratios (Fractions) on the idle block plus structural "
         "laws; covers reachable (W, locks, row order) states only.",
         "the for-all-matrices quantifier is input enumeration and is not claimed; reached-state counts are in the evidence.",
         "deterministic simulation: seeded multi-worker schedules reaching (W, lock) states, exact-permanent oracle per state"),
 "C09": ("exploration", "§4 C09",
         "Per-job monitor over simulated histories: membership invariants of every accepted path, "
         "bit-identity of the old path and files on rejection, and a bit-exact reference model of the "
         "shooting move (clones of the job's streams) predicting verdict and order sequence, with "
         "maxlength steered so that 'trial fills the bound exactly' is hit hundreds of times per run.",
         "reference model for shooting on the lattice engine only; wf / zero swap: invariants.",
         "deterministic simulation: seeded histories, per-job reference model (refinement check) on recorded streams"),
 "C14": ("exploration", "§4 C14",
         "Storage monitor over simulated accept/reject histories with delete_old settings, several workers "
         "and restarts: load-back of every stored path, file presence for live / in-flight / restart-listed "
         "paths, initial paths hashed, deletion lag.",
         "lattice engine paths (two files, reversed frames); energies absent there.",
         "deterministic simulation: seeded schedules and restart sequences, storage invariants after every step"),
 "C03": ("exploration", "§4 C03",
         "Seeded search over completion orders, durations, crashes and restarts of the real scheduler; "
         "invariants against a reference model of the in-flight set built only from what crosses the "
         "runner seam, evaluated at every submission and after every treat_output.",
         "SimRunner replaces aiorunner (jobs run at submission on a pickled copy); lattice engine; "
         "crashes only between steps (inside-step crashes: C08).",
         "deterministic simulation: seeded scheduler of job completions + crash/restart injection, reference-model invariants"),
 "C04": ("exploration", "§4 C04",
         "Conservation ledger over simulated histories: per step (delta of live fractions + new data rows "
         "== 1 per idle column, 0 per busy column) and per history (rows + restart fractions == idle-step "
         "counts) across clean stops, crashes and restarts.",
         "as C03; tolerance 1e-9 per step.",
         "deterministic simulation: seeded schedules and restart/crash sequences, conservation oracle over the recorded history"),
 "C05": ("exploration", "§4 C05",
         "Every simulated run is a liveness run: picks must succeed with finite normalised P, the re-sort "
         "is step-capped, path numbers fresh, and at a seeded subset of steps a forked loader restarts from "
         "a snapshot of the live directory and performs the initiation picks.",
         "non-termination detected by a swap cap and wall timeout (harness error, never pass).",
         "deterministic simulation: seeded schedules up to ensembles-1 workers, progress invariants, forked restart-loader probes"),
 "C06": ("fault_enumeration", "§4 C06",
         "Stop/restart simulation at step boundaries: straight run vs restart chains byte-compared for "
         "every single split point (enumerated over the case index) and sampled chains, arbitrary seeds; "
         "several workers: crash, and the re-issued jobs must equal the recorded in-flight set.",
         "scope of the property statement (allowmaxlength / chains sharing the first split).",
         "deterministic simulation: enumerated stop points + seeded restart chains, byte-equivalence oracle"),
 "C07": ("exploration", "§4 C07",
         "Stream ledger over whole simulated histories (all incarnations): (entropy, spawn key, state) of "
         "every job's move and engine stream recorded at the runner seam; pairwise distinct, fresh, own "
         "object, entropy == seed; global-RNG tripwire around every move.",
         "jobs lost in a crash are exempt (their replacement must reuse the stream for restart equivalence).",
         "deterministic simulation: seeded multi-worker schedules with crash/restart sequences, history-wide stream ledger"),
 "C17": ("exploration", "§4 C17",
         "(a) step arithmetic of the real scheduler over (workers, steps, restart point) incl. remaining < "
         "workers, idle restarts, crashes; (b) exactly-once execution/delivery and clean shutdown of the "
         "real aiorunner under seeded task durations, failures, bursts and stalls; (c) scheduler + runner "
         "+ simulated executor in one process.",
         "parts (b) real aiorunner/future_list under a virtual-time event loop and (c) full stack are interleaved in the same check; statement-level thread pre-emption is not explored.",
         "deterministic simulation: seeded schedules and restart sequences, step-count and exactly-once oracles"),
}

NOT_APPLICABLE = {
 "C10": "pure function of an order-parameter sequence and one uniform number: no schedule, clock, fault or I/O timing in the statement; input generation is a different technique (DESIGN.md §6)",
 "C11": "pure function of two paths, an engine and one draw; the concurrency aspect (only when both idle, both held) is monitored under C03 and validity of accepted zero-swap paths under C09 (DESIGN.md §6)",
 "C15": "pure data-structure laws of Path (paste/reverse/copy/classification); nothing for a simulator to schedule or fault (DESIGN.md §6)",
 "C16": "distributional law of a pure function of (frame, stream); that draws come from the job's stream is C07 (DESIGN.md §6)",
 "C18": "predicate over configuration dicts; no schedule, time or fault dimension (DESIGN.md §6)",
 "C19": "round-trip laws of codecs over inputs; no schedule, time or fault dimension (partial-write behaviour of the readers is C13) (DESIGN.md §6)",
 "C20": "algebraic symmetry laws over coordinates; no schedule, time or fault dimension (DESIGN.md §6)",
}
PENDING = {k: "check under construction (simulation layer not built yet); not claimed until it runs clean on the unchanged tree"
           for k in ()}


def main():
    import sys
    sys.path.insert(0, VERIF)
    built = set(CHECKS)
    checks = []
    for pid in sorted(built):
        level, ref, text, note, tech = CHECKS[pid]
        checks.append({
            "property_id": pid,
            "quick_cmd": f"./check {pid} --tier quick",
            "thorough_cmd": f"./check {pid} --tier thorough",
            "evidence_file": f"/verif/evidence/{pid}.json",
            "replay_cmd_template": f"./check {pid} --replay {{path}}",
            "engine": "infretis-dsim",
            "level_claimed": {"category": level, "text": text, "design_ref": ref},
            "level_note": note,
            "technique": tech,
        })
    na = [{"property_id": k, "reason": v} for k, v in sorted(NOT_APPLICABLE.items())]
    for k, v in sorted(PENDING.items()):
        if k not in built:
            na.append({"property_id": k, "reason": v})
    doc = {
        "version": 1,
        "setup_cmd": "/venv/bin/python /verif/tools/setup_check.py",
        "hooks": {
            "guard": "INFRETIS_VERIF",
            "enable": "no hook in /repo is needed: every seam is a module-level name rebound by the simulator in its own (forked) process; the guard name is reserved and unused",
            "baseline_off_cmd": "/venv/bin/python /verif/tools/baseline.py",
            "source_commits": [],
            "add_only": True,
        },
        "engines": [{
            "name": "infretis-dsim",
            "path": "/verif/sim",
            "serves_properties": sorted(built),
            "kind_free_text": "deterministic simulator: seeded kernel (decision trace, virtual clock), scheduler-level runner simulation with forked incarnations, virtual-time asyncio loop, simulated external MD programs, file-system effect seam; ddmin shrinker and exact replay",
        }],
        "checks": checks,
        "not_applicable": na,
        "notes": "All checks import infretis from /repo's working tree (VERIF_REPO overrides) - nothing is built. Exit 0 = held; exit 1 + VIOLATION line = violation with replay file; exit 2 = harness error. Known findings: /verif/known_findings.json.",
    }
    path = os.path.join(VERIF, "MANIFEST.json")
    with open(path, "w") as fh:
        json.dump(doc, fh, indent=1)
    import jsonschema
    schema = json.load(open("/root/.vp/MANIFEST.schema.json"))
    jsonschema.validate(doc, schema)
    props = [json.loads(l)["id"] for l in open(os.path.join(VERIF, "properties.jsonl"))]
    covered = set(c["property_id"] for c in checks) | set(n["property_id"] for n in na)
    missing = [p for p in props if p not in covered]
    print("manifest ok; claimed", sorted(built), "missing", missing)


if __name__ == "__main__":
    main()
