#!/venv/bin/python
"""Run checks against the seeded changes in /verif/seeded/<id>/.

  tools/seeded_run.py [--only ID ...] [--budget S] [--all-checks] [--in-repo]

For each seeded change: make a scratch worktree of /repo (outside /repo and /verif), apply patch.diff,
run the quick check of the property it targets (and, with --all-checks, every other check) with
VERIF_REPO pointing at the worktree, record which checks report a VIOLATION, remove the worktree.
With --in-repo the patch is applied to /repo itself (git apply) and undone afterwards
(git checkout -- .). Results are written to /verif/seeded/RESULTS.json and printed as a table.
"""
import argparse
import json
import os
import re
import shutil
import subprocess
import sys
import tempfile

VERIF = os.path.dirname(os.path.dirname(os.path.abspath(__file__)))
ALL = ["C01", "C02", "C03", "C04", "C05", "C06", "C07", "C08", "C09", "C12", "C13", "C14", "C17"]


def sh(cmd, **kw):
    return subprocess.run(cmd, capture_output=True, text=True, **kw)


def run_check(prop, repo, budget, seed):
    env = dict(os.environ, VERIF_REPO=repo, VERIF_SEED=str(seed), PYTHONHASHSEED="0")
    cmd = [os.path.join(VERIF, "check"), prop, "--no-evidence"]
    if budget and prop != "C01":
        cmd += ["--budget", str(budget)]
    p = sh(cmd, env=env, cwd=VERIF)
    viol = [l for l in p.stdout.splitlines() if l.startswith("VIOLATION")]
    detail = ""
    m = re.findall(r"^\[%s\] ([a-z_0-9]+): (.*)$" % prop, p.stdout, re.M)
    if m:
        detail = f"{m[-1][0]}: {m[-1][1][:200]}"
    replay = viol[0].split("replay=")[1] if viol else None
    if replay and os.path.isfile(replay):
        os.remove(replay)       # a replay against a seeded tree is not a finding on /repo
    return {"exit": p.returncode, "violation": bool(viol), "detail": detail,
            "harness_error": p.returncode == 2, "tail": p.stdout[-300:] if p.returncode == 2 else ""}


def main():
    ap = argparse.ArgumentParser()
    ap.add_argument("--only", nargs="*")
    ap.add_argument("--budget", type=float, default=60)
    ap.add_argument("--all-checks", action="store_true")
    ap.add_argument("--in-repo", action="store_true")
    ap.add_argument("--seed", type=int, default=20261001)
    args = ap.parse_args()
    sdir = os.path.join(VERIF, "seeded")
    ids = sorted(d for d in os.listdir(sdir) if os.path.isfile(os.path.join(sdir, d, "patch.diff")))
    if args.only:
        ids = [i for i in ids if i in args.only]
    respath = os.path.join(sdir, "RESULTS.json")
    results = json.load(open(respath)) if os.path.isfile(respath) else {}
    for sid in ids:
        meta = json.load(open(os.path.join(sdir, sid, "meta.json")))
        patch = os.path.join(sdir, sid, "patch.diff")
        if args.in_repo:
            repo = "/repo"
            if sh(["git", "-C", repo, "status", "--porcelain", "--untracked-files=no"]).stdout.strip():
                print("refusing: /repo has uncommitted changes")
                return 2
            wt = None
        else:
            wt = tempfile.mkdtemp(prefix=f"seeded_{sid}_", dir="/tmp")
            os.rmdir(wt)
            r = sh(["git", "-C", "/repo", "worktree", "add", "--detach", wt, "HEAD"])
            if r.returncode:
                print(sid, "worktree failed", r.stderr)
                continue
            repo = wt
        try:
            r = sh(["git", "-C", repo, "apply", patch])
            if r.returncode:
                print(sid, "patch does not apply:", r.stderr[:300])
                results[sid] = {"error": "patch does not apply"}
                continue
            props = [meta["property"]] + ([p for p in ALL if p != meta["property"]] if args.all_checks else
                                          meta.get("also_run", []))
            out = {}
            for prop in props:
                out[prop] = run_check(prop, repo, args.budget, args.seed)
            results[sid] = {"property": meta["property"], "checks": out,
                            "caught_by": [p for p, o in out.items() if o["violation"]]}
            print(f"{sid:28s} targets {meta['property']}: caught by {results[sid]['caught_by'] or 'NOTHING'}"
                  f"  {out[meta['property']]['detail'][:160]}", flush=True)
        finally:
            if args.in_repo:
                sh(["git", "-C", "/repo", "checkout", "--", "."])
            else:
                sh(["git", "-C", "/repo", "worktree", "remove", "--force", wt])
                shutil.rmtree(wt, ignore_errors=True)
        with open(respath, "w") as fh:
            json.dump(results, fh, indent=1)
    return 0


if __name__ == "__main__":
    sys.exit(main())
