#!/venv/bin/python
"""Run the repository's pinned test suite (guard off) and compare with BASELINE.json's stable_pass."""
import json
import os
import subprocess
import sys
import tempfile
import xml.etree.ElementTree as ET

repo = os.environ.get("VERIF_REPO", "/repo")
base = json.load(open("/root/.vp/BASELINE.json"))
want = set(base["stable_pass"])
with tempfile.TemporaryDirectory() as td:
    xml = os.path.join(td, "junit.xml")
    env = dict(os.environ)
    env.pop("INFRETIS_VERIF", None)
    cmd = ["/venv/bin/python", "-m", "pytest", "-ra", "-q", "-p", "no:cacheprovider", "--timeout=900",
           "--continue-on-collection-errors", f"--junitxml={xml}"]
    if os.environ.get("VERIF_BASELINE_FAILFAST"):
        cmd.append("-x")           # mutation runs: the first failing test settles it
        for t in base.get("always_fail", []):      # ... of those that pass on the unchanged tree
            mod, name = t.split("::")
            cmd += ["--deselect", mod.replace(".", "/") + ".py::" + name]
    try:
        proc = subprocess.run(cmd, cwd=repo, env=env, stdout=subprocess.PIPE, stderr=subprocess.STDOUT, text=True,
                              timeout=float(os.environ.get("VERIF_BASELINE_TIMEOUT", "2400")), start_new_session=True)
    except subprocess.TimeoutExpired as exc:
        # the repository's suite occasionally hangs in a forked pool worker on a loaded machine
        print("baseline: TIMEOUT (pytest did not finish); re-run")
        sys.exit(3)
    passed = set()
    for tc in ET.parse(xml).getroot().iter("testcase"):
        if not any(ch.tag in ("failure", "error", "skipped") for ch in tc):
            passed.add(f"{tc.get('classname')}::{tc.get('name')}")
missing = sorted(want - passed)
print(f"baseline: {len(want & passed)}/{len(want)} stable tests pass")
for m in missing:
    print("MISSING", m)
if missing:
    print(proc.stdout[-3000:])
sys.exit(1 if missing else 0)
