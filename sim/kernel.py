"""Simulation kernel: one PRNG, a decision trace, a virtual clock and an event log.

Every nondeterministic choice of a simulated run goes through ``Kernel.choose`` /
``Kernel.uniform`` / ``Kernel.flip``.  In *generate* mode values come from a
``random.Random`` seeded from the run seed; in *replay* mode they are read from a
recorded trace (per-kind FIFO queues) and fall back to the neutral value (0 / lo /
False) when the queue of that kind is exhausted.  This is what makes shrinking
possible: dropping a decision turns it into "no fault / first runnable / shortest
delay" without shifting the decisions of other kinds.

Logging never draws from the PRNG and never reads a real clock.
"""
import hashlib
import heapq
import json
import random


def hash64(*parts):
    """Stable 63-bit hash of the parts (independent of PYTHONHASHSEED)."""
    h = hashlib.sha256(repr(parts).encode()).digest()
    return int.from_bytes(h[:8], "big") >> 1


class Kernel:
    def __init__(self, seed, decisions=None, prefix=""):
        self.seed = seed
        self.rng = random.Random(seed)
        self.replay = decisions is not None
        self.prefix = prefix
        self._queues = {}
        if decisions is not None:
            for kind, val in decisions:
                self._queues.setdefault(kind, []).append(val)
            for q in self._queues.values():
                q.reverse()  # pop() from the end == FIFO
        self.trace = []          # [[kind, value], ...] chronological
        self.now = 0.0
        self._seq = 0
        self._heap = []
        self.events = []
        self.steps = 0
        self.fault_counts = {}
        self.probes = {}
        self._sink = None        # optional callable(line) for streaming events

    # ---- decisions -------------------------------------------------------------------
    def _next(self, kind):
        q = self._queues.get(kind)
        if q:
            return True, q.pop()
        return False, None

    def choose(self, kind, n):
        """Integer in [0, n). Neutral value 0."""
        kind = self.prefix + kind
        if n <= 0:
            raise ValueError("choose from empty set")
        if self.replay:
            ok, v = self._next(kind)
            v = int(v) if ok and isinstance(v, (int, float)) and 0 <= int(v) < n else 0
        else:
            v = self.rng.randrange(n)
        self.trace.append([kind, v])
        return v

    def uniform(self, kind, lo, hi):
        """Float in [lo, hi). Neutral value lo."""
        kind = self.prefix + kind
        if self.replay:
            ok, v = self._next(kind)
            v = float(v) if ok and isinstance(v, (int, float)) and lo <= float(v) <= hi else lo
        else:
            v = lo + (hi - lo) * self.rng.random()
        self.trace.append([kind, v])
        return v

    def flip(self, kind, p):
        """True with probability p. Neutral value False.  p is *not* re-applied in replay."""
        kind = self.prefix + kind
        if self.replay:
            ok, v = self._next(kind)
            v = bool(v) if ok else False
        else:
            v = self.rng.random() < p
        self.trace.append([kind, 1 if v else 0])
        return v

    # ---- clock / event heap ----------------------------------------------------------
    def at(self, when, payload):
        self._seq += 1
        heapq.heappush(self._heap, (when, self._seq, payload))

    def pop_event(self):
        when, seq, payload = heapq.heappop(self._heap)
        if when > self.now:
            self.now = when
        self.steps += 1
        return payload

    def pending(self):
        return len(self._heap)

    # ---- bookkeeping -------------------------------------------------------------------
    def fault(self, kind):
        self.fault_counts[kind] = self.fault_counts.get(kind, 0) + 1

    def probe(self, name, n=1):
        self.probes[name] = self.probes.get(name, 0) + n

    def log(self, **ev):
        ev["t"] = round(self.now, 9)
        self.events.append(ev)
        if self._sink is not None:
            self._sink(ev)

    def digest(self):
        return digest_events(self.events)


def digest_events(events):
    h = hashlib.sha256()
    for ev in events:
        h.update(json.dumps(ev, sort_keys=True, default=str).encode())
        h.update(b"\n")
    return h.hexdigest()
