"""Layer C: simulated external MD programs (file-format level) and on-the-fly writers."""
import os
import struct

import numpy as np


# ======================================================================================
# encoders of the programs' real output formats
# ======================================================================================
def fmt_num(x, style):
    if style == "fixed":
        return f"{x:.6f}"
    if style == "sci":
        return f"{x:.8e}"
    if style == "short":
        return f"{x:.3g}"
    if style == "long":
        return f"{x:.12f}"
    if style == "f10":
        return f"{x:.10f}"
    return repr(float(x))


def lammps_frame(step, ids, types, pos, vel, box, style="fixed", box_cols=2):
    """One `dump custom id type x y z vx vy vz id` frame. box: (3,2) lo/hi (+ tilt if 3 cols)."""
    lines = ["ITEM: TIMESTEP", str(step), "ITEM: NUMBER OF ATOMS", str(len(ids))]
    lines.append("ITEM: BOX BOUNDS " + ("xy xz yz pp pp pp" if box_cols == 3 else "pp pp pp"))
    for d in range(3):
        row = [fmt_num(box[d][0], style), fmt_num(box[d][1], style)]
        if box_cols == 3:
            row.append(fmt_num(box[d][2] if len(box[d]) > 2 else 0.0, style))
        lines.append(" ".join(row))
    lines.append("ITEM: ATOMS id type x y z vx vy vz id")
    for k in range(len(ids)):
        vals = [fmt_num(v, style) for v in list(pos[k]) + list(vel[k])]
        lines.append(f"{ids[k]} {types[k]} " + " ".join(vals) + f" {ids[k]}")
    return ("\n".join(lines) + "\n").encode()


def parse_lammps_expected(ids, pos, vel, box, style, box_cols):
    """What a correct reader must return for the frame written by lammps_frame."""
    n = len(ids)
    arr = np.zeros((n, 6))
    for k in range(n):
        vals = [float(fmt_num(v, style)) for v in list(pos[k]) + list(vel[k])]
        arr[ids[k] - 1] = vals
    b = np.zeros((3, 3))
    for d in range(3):
        b[d][0] = float(fmt_num(box[d][0], style))
        b[d][1] = float(fmt_num(box[d][1], style))
        if box_cols == 3:
            b[d][2] = float(fmt_num(box[d][2] if len(box[d]) > 2 else 0.0, style))
    return arr, b


def xyz_frame(step, names, vals, style="long", time=0.0, energy=-1.0):
    """CP2K-style xyz frame (positions or velocities): N, comment line, N lines 'El x y z'."""
    lines = [f"{len(names):8d}", f" i = {step:8d}, time = {time:12.3f}, E = {energy:20.10f}"]
    for k, nm in enumerate(names):
        lines.append(f"{nm:>3s} " + " ".join(f"{fmt_num(v, style):>20s}" for v in vals[k]))
    return ("\n".join(lines) + "\n").encode()


def parse_xyz_expected(vals, style):
    return np.array([[float(fmt_num(v, style)) for v in row] for row in vals], dtype=np.float64)


def trr_frame(step, time, box, x, v=None, endian=">", double=False):
    real = "d" if double else "f"
    rs = 8 if double else 4
    natoms = len(x)
    hdr = struct.pack(f"{endian}i", 1993) + struct.pack(f"{endian}2i", 13, 12) + b"GMX_trn_file"
    sizes = [0, 0, 9 * rs, 0, 0, 0, 0, natoms * 3 * rs, (natoms * 3 * rs if v is not None else 0), 0,
             natoms, step, 0]
    hdr += struct.pack(f"{endian}13i", *sizes)
    hdr += struct.pack(f"{endian}2{real}", time, 0.0)
    data = struct.pack(f"{endian}9{real}", *[float(b) for row in box for b in row])
    data += struct.pack(f"{endian}{natoms*3}{real}", *[float(c) for row in x for c in row])
    if v is not None:
        data += struct.pack(f"{endian}{natoms*3}{real}", *[float(c) for row in v for c in row])
    return hdr + data


def trr_expected(box, x, v, double):
    dt = np.float64 if double else np.float32
    out = {"box": np.array(box, dtype=dt).astype(np.float64), "x": np.array(x, dtype=dt).astype(np.float64)}
    if v is not None:
        out["v"] = np.array(v, dtype=dt).astype(np.float64)
    return out


# ======================================================================================
# writer: appends real bytes to a real file at seeded cut points
# ======================================================================================
class ChunkWriter:
    """Holds the full byte string of a file and appends it piecewise."""

    def __init__(self, path, data, frame_ends):
        self.path = path
        self.data = data
        self.frame_ends = frame_ends     # cumulative byte offsets at which frame k is complete
        self.pos = 0
        self.created = False

    def create(self):
        if not self.created:
            open(self.path, "wb").close()
            self.created = True

    def write_upto(self, upto):
        upto = min(max(upto, self.pos), len(self.data))
        self.create()
        if upto > self.pos:
            with open(self.path, "ab") as fh:
                fh.write(self.data[self.pos:upto])
            self.pos = upto

    def write_all(self):
        self.write_upto(len(self.data))

    @property
    def done(self):
        return self.pos >= len(self.data)

    def complete_frames(self, newline_slack=False):
        """Frames whose bytes are all on disk; with newline_slack a frame that lacks nothing but its
        final newline byte counts (all of its values are on disk)."""
        n = 0
        for e in self.frame_ends:
            if e <= self.pos or (newline_slack and e - 1 == self.pos and self.data[e - 1:e] == b"\n"):
                n += 1
        return n
