"""Layer A: the real infretis scheduler under a simulated runner.

`run_case(case)` executes a whole history (a sequence of incarnations of the main process,
each in its own fork()ed child) and returns events, decisions, violations and statistics.
"""
import copy
import json
import os
import pickle
import signal
import sys
import time as _realtime
import traceback

from sim.kernel import Kernel, digest_events, hash64
from sim import scenario as SC

EXIT_CRASH = 77
EXIT_DIED = 70
EXIT_STOP = 71


class StopRun(BaseException):
    """Raised by the simulator to end an incarnation (violation found / budget)."""


class Crash(BaseException):
    """Never raised through repo code: the crash is a real os._exit."""


class _ClockShim:
    """Stands in for the `time` module inside repo namespaces."""

    def __init__(self, k):
        self._k = k

    def time(self):
        return 1.0e9 + self._k.now

    def sleep(self, dt):
        self._k.now += max(0.0, dt)

    def __getattr__(self, name):
        return getattr(_realtime, name)


class _OsShim:
    """Delegates to os; getpid is constant so file names are reproducible."""

    def __init__(self, **over):
        self.__dict__["_over"] = over

    def __getattr__(self, name):
        if name in self._over:
            return self._over[name]
        return getattr(os, name)


class SimFuture:
    def __init__(self, jid):
        self.jid = jid
        self.payload = None
        self.exc = None
        self.ready = 0.0
        self.consumed = 0

    def done(self):
        return True

    def result(self):
        self.consumed += 1
        if self.exc is not None:
            raise self.exc
        return self.payload


class SimRunner:
    def __init__(self, sim):
        self.sim = sim
        self.stopped = False

    def submit_work(self, md):
        return self.sim.submit(md)

    def stop(self):
        self.stopped = True
        self.sim.on_runner_stop()


class SimFutures:
    def __init__(self, sim):
        self.sim = sim

    def add(self, fut):
        self.sim.futs.append(fut)

    def as_completed(self):
        return self.sim.next_completion()


class SchedSim:
    """One incarnation of the main process under simulation."""

    def __init__(self, k, case, inc, spec, monitors):
        self.k = k
        self.case = case
        self.scn = case["scn"]
        self.inc = inc
        self.spec = spec
        self.monitors = monitors
        self.state = None
        self.md_template = None
        self.futs = []
        self.inflight = {}       # jid -> info (reference model built from the runner seam only)
        self.njobs = 0
        self.completed = 0       # treat_output calls in this incarnation
        self.consumed = 0        # futures handed out by as_completed
        self.violations = []
        self.known = case.get("known", [])
        self.enabled = set(case.get("props", []))
        self.swaps_in_treat = 0
        self.in_treat = False
        self.in_job = False
        self.stats = {"jobs": 0, "frames": 0, "acc": 0, "rej": 0, "zero_swaps": 0,
                      "overlap_steps": 0, "max_inflight": 0}
        self.sig = []            # completion-order signature
        for m in monitors:
            m.sim = self

    # ------------------------------------------------------------------ install seams
    def install(self):
        import infretis.scheduler as S
        import infretis.classes.repex as R
        import infretis.core.tis as T
        import infretis.classes.engines.enginebase as EB
        self.run_md = T.run_md
        orig_setup_internal = S.setup_internal

        def setup_internal(config):
            md_items, state = orig_setup_internal(config)
            self.attach(state, md_items)
            return md_items, state

        S.setup_internal = setup_internal
        S.setup_runner = lambda state: (SimRunner(self), SimFutures(self))
        clock = _ClockShim(self.k)
        R.time = clock
        T.time = clock
        EB.os = _OsShim(getpid=lambda: 3141592)
        if hasattr(EB.counter, "count"):
            del EB.counter.count

    def attach(self, state, md_items):
        self.state = state
        self.md_template = md_items
        sim = self
        orig_prep = state.prep_md_items
        orig_treat = state.treat_output
        orig_swap = state.swap
        orig_inf = state.inf_retis

        def prep_md_items(md):
            for m in sim.monitors:
                m.pre_prep(md)
            out = orig_prep(md)
            for m in sim.monitors:
                m.post_prep(out)
            return out

        def treat_output(md):
            sim.in_treat = True
            sim.swaps_in_treat = 0
            for m in sim.monitors:
                m.pre_treat(md)
            out = orig_treat(md)
            sim.in_treat = False
            sim.completed += 1
            if md.get("status") == "ACC":
                sim.stats["acc"] += 1
            else:
                sim.stats["rej"] += 1
            sim.k.log(ev="treated", cstep=int(state.cstep), status=md.get("status"),
                      ens=[int(e) for e in md["picked"].keys()], pn_old=[int(x) for x in md["pnum_old"]],
                      live=[int(x) for x in state.live_paths()])
            for m in sim.monitors:
                m.post_treat(out)
            return out

        def swap(a, b):
            sim.swaps_in_treat += 1
            n = state.n
            if sim.in_treat and sim.swaps_in_treat > 4 * n * n + 8:
                sim.violate("C05", "sort_nonterminating",
                            f"more than {4*n*n+8} swaps inside one treat_output", hard=True)
            return orig_swap(a, b)

        def inf_retis(mat, locks):
            out = orig_inf(mat, locks)
            for m in sim.monitors:
                m.on_prob(mat, locks, out)
            return out

        state.prep_md_items = prep_md_items
        state.treat_output = treat_output
        state.swap = swap
        state.inf_retis = inf_retis
        for m in self.monitors:
            m.on_attach(state, md_items)

    # ------------------------------------------------------------------ violations
    def violate(self, prop, vclass, msg, site=None, hard=False):
        v = {"prop": prop, "class": vclass, "msg": str(msg)[:600], "site": site,
             "inc": self.inc, "step": self.completed}
        is_known = any(e.get("property") == prop and e.get("class") == vclass
                       and e.get("site") in (None, site) for e in self.known)
        v["known"] = is_known
        self.violations.append(v)
        self.k.log(ev="violation", prop=prop, vclass=vclass, msg=v["msg"], site=site, known=is_known)
        if (prop in self.enabled and not is_known) or hard:
            raise StopRun()

    # ------------------------------------------------------------------ runner seam
    def _job_info(self, md):
        picked = md["picked"]
        info = {
            "ens": [int(e) for e in picked.keys()],
            "paths": [int(picked[e]["traj"].path_number) for e in picked],
            "pin": md.get("pin"),
            "w_folder": md.get("w_folder"),
            "eng": sorted((name, int(idx)) for e in picked
                          for name, idx in picked[e].get("eng_idx", {}).items()),
        }
        return info

    def submit(self, md):
        k = self.k
        self.njobs += 1
        jid = self.njobs
        info = self._job_info(md)
        info["jid"] = jid
        info["t_submit"] = k.now
        for m in self.monitors:
            m.on_submit(jid, md, info)
        self.inflight[jid] = info
        self.stats["max_inflight"] = max(self.stats["max_inflight"], len(self.inflight))
        if len(info["ens"]) == 2:
            self.stats["zero_swaps"] += 1
            k.probe("zero_swap_issued")
        k.log(ev="submit", jid=jid, ens=info["ens"], paths=info["paths"], pin=info["pin"],
              eng=info["eng"])
        job = pickle.loads(pickle.dumps(md))          # copy in (process boundary)
        for m in self.monitors:
            m.pre_job(jid, job)
        fut = SimFuture(jid)
        self.in_job = True
        try:
            out = self.run_md(job)
        except StopRun:
            raise
        except Exception as exc:                       # surfaces at future.result()
            out = None
            fut.exc = exc
            k.log(ev="job_raised", jid=jid, exc=type(exc).__name__, msg=str(exc)[:200],
                  tb=_short_tb(exc))
        finally:
            self.in_job = False
        if out is not None:
            frames = int(sum(out.get("trial_len", []) or [0]))
            self.stats["frames"] += frames
            for m in self.monitors:
                m.post_job(jid, job, out)
        else:
            frames = 1
        self.stats["jobs"] += 1
        fut.payload = out
        fut.ready = k.now + self._duration(info, frames)
        fut.frames = frames
        return fut

    def _duration(self, info, frames):
        k = self.k
        model = self.scn["order_model"]
        if model == "uniform":
            return k.uniform("dur", 0.1, 1.0)
        if model == "frames":
            return max(1, frames) * k.uniform("dur", 0.9, 1.1) * 0.01
        if model == "inverse":
            return k.uniform("dur", 0.9, 1.1) / (1.0 + frames)
        if model == "slow_pin":
            base = k.uniform("dur", 0.1, 1.0)
            return base * (25.0 if info["pin"] == 0 else 1.0)
        if model == "stall":
            base = k.uniform("dur", 0.1, 1.0)
            if k.flip("stall", 0.1):
                k.fault("stalled_job")
                return base * 60.0
            return base
        return 1.0   # pick-based models decide at completion time

    def next_completion(self):
        k = self.k
        if not self.futs:
            k.log(ev="as_completed_none")
            for m in self.monitors:
                m.on_as_completed_none()
            return None
        self._maybe_crash()
        model = self.scn["order_model"]
        futs = self.futs
        if model == "fifo":
            idx = 0
        elif model == "lifo":
            idx = len(futs) - 1
        elif model == "random":
            idx = k.choose("complete", len(futs))
        else:
            idx = min(range(len(futs)), key=lambda i: (futs[i].ready, futs[i].jid))
        fut = futs.pop(idx)
        if model in ("fifo", "lifo", "random"):
            k.now += 1.0
        else:
            k.now = max(k.now, fut.ready)
        k.steps += 1
        info = self.inflight.pop(fut.jid)
        later = sum(1 for f in futs if f.jid < fut.jid)
        if later:
            k.probe("completed_before_earlier_job")
        if futs:
            self.stats["overlap_steps"] += 1
            k.probe("overlap")
        busy = sorted(e for j in self.inflight.values() for e in j["ens"])
        self.sig.append((tuple(info["ens"]), tuple(busy)))
        self.consumed += 1
        if fut.payload is not None:
            fut.payload = pickle.loads(pickle.dumps(fut.payload))   # copy out
        crash = self.spec.get("crash")
        if crash and crash.get("kind") == "worker_exc" and self.consumed == crash.get("after", 0) + 1:
            k.fault("worker_exception")
            fut.exc = RuntimeError("injected worker failure")
        k.log(ev="complete", jid=fut.jid, ens=info["ens"], busy=busy,
              status=(fut.payload or {}).get("status"), failed=fut.exc is not None)
        for m in self.monitors:
            m.on_complete(fut, info)
        return fut

    def _maybe_crash(self):
        crash = self.spec.get("crash")
        if crash and crash.get("kind") == "exit" and self.consumed == crash.get("after", 0):
            self.k.fault("crash_between_steps")
            self.k.log(ev="crash", after=self.consumed)
            if self.inflight:
                self.k.probe("crash_with_inflight")
            self.finish(EXIT_CRASH)

    def on_runner_stop(self):
        self.k.log(ev="runner_stop", inflight=sorted(self.inflight), futs=len(self.futs))
        for m in self.monitors:
            m.on_stop()


class Monitor:
    """Base class: observers read state, never alter it."""
    sim = None

    def on_attach(self, state, md_items): pass
    def pre_prep(self, md): pass
    def post_prep(self, md): pass
    def on_submit(self, jid, md, info): pass
    def pre_job(self, jid, job): pass
    def post_job(self, jid, job, out): pass
    def on_complete(self, fut, info): pass
    def on_as_completed_none(self): pass
    def pre_treat(self, md): pass
    def post_treat(self, md): pass
    def on_prob(self, mat, locks, out): pass
    def on_stop(self): pass
    def on_end(self): pass
    def summary(self): return {}


def _short_tb(exc):
    tb = traceback.extract_tb(exc.__traceback__)
    return [f"{os.path.basename(f.filename)}:{f.lineno}:{f.name}" for f in tb[-4:]]


# ======================================================================================
# incarnation (child process)
# ======================================================================================
def _child(case, inc, spec, rundir, decisions, outpath, monitor_factory, pre_install=None):
    fd = os.open(outpath, os.O_WRONLY | os.O_CREAT | os.O_TRUNC, 0o644)
    err = os.open(outpath + ".stderr", os.O_WRONLY | os.O_CREAT | os.O_TRUNC, 0o644)
    os.dup2(err, 2)
    os.dup2(err, 1)
    k = Kernel(hash64(case["seed"], "inc", inc), decisions, prefix=f"i{inc}.")
    k._sink = lambda ev: os.write(fd, (json.dumps(ev, sort_keys=True, default=str) + "\n").encode())
    monitors = monitor_factory(case, inc)
    sim = SchedSim(k, case, inc, spec, monitors)
    code = 0
    os.chdir(rundir)

    def finish(code):
        end = {"ev": "__end__", "trace": k.trace, "probes": k.probes, "faults": k.fault_counts,
               "violations": sim.violations, "stats": sim.stats, "completed": sim.completed,
               "consumed": sim.consumed, "sim_time": k.now, "ksteps": k.steps,
               "sig": hash64(tuple(sim.sig)), "nsig": len(sim.sig),
               "mon": {type(m).__name__: m.summary() for m in monitors},
               "extra": getattr(sim, "extra_end", {})}
        os.write(fd, (json.dumps(end, default=str) + "\n").encode())
        os.close(fd)
        os._exit(code)

    sim.finish = finish
    try:
        sim.install()
        if pre_install is not None:
            pre_install(sim, scratch=os.path.dirname(outpath))
        from infretis.setup import setup_config
        from infretis.scheduler import scheduler
        config = setup_config(spec.get("inp", "infretis.toml"))
        if config is None:
            k.log(ev="setup_none")
        else:
            k.log(ev="start", cstep=int(config["current"]["cstep"]),
                  steps=int(config["simulation"]["steps"]),
                  locked=config["current"].get("locked", []))
            scheduler(config)
            k.log(ev="finished", cstep=int(config["current"]["cstep"]), completed=sim.completed)
            for m in monitors:
                m.on_end()
    except StopRun:
        code = EXIT_STOP
    except Crash:
        code = EXIT_CRASH
    except BaseException as exc:  # main process died of an uncaught exception
        code = EXIT_DIED
        k.log(ev="died", exc=type(exc).__name__, msg=str(exc)[:300], tb=_short_tb(exc))
        try:
            for m in monitors:
                m.on_died(exc) if hasattr(m, "on_died") else None
        except StopRun:
            pass
    finish(code)


def run_incarnation(case, inc, spec, rundir, decisions, scratch, monitor_factory, timeout=240,
                    pre_install=None):
    outpath = os.path.join(scratch, f"inc{inc}.jsonl")
    sys.stdout.flush()
    sys.stderr.flush()
    pid = os.fork()
    if pid == 0:
        try:
            from sim.common import die_with_parent
            die_with_parent()
            _child(case, inc, spec, rundir, decisions, outpath, monitor_factory, pre_install)
        finally:
            os._exit(99)
    t0 = _realtime.time()
    status = None
    try:
        while True:
            wpid, st = os.waitpid(pid, os.WNOHANG)
            if wpid == pid:
                status = st
                break
            if _realtime.time() - t0 > timeout:
                os.kill(pid, signal.SIGKILL)
                os.waitpid(pid, 0)
                raise TimeoutError(f"incarnation {inc} exceeded {timeout}s")
            _realtime.sleep(0.0005)
    except BaseException:
        try:
            os.kill(pid, signal.SIGKILL)
            os.waitpid(pid, 0)
        except (ProcessLookupError, ChildProcessError):
            pass
        raise
    code = os.waitstatus_to_exitcode(status)
    events, end = [], None
    with open(outpath) as fh:
        for line in fh:
            ev = json.loads(line)
            if ev.get("ev") == "__end__":
                end = ev
            else:
                events.append(ev)
    if end is None:
        stderr = ""
        try:
            with open(outpath + ".stderr") as fh:
                stderr = fh.read()[-1500:]
        except OSError:
            pass
        raise RuntimeError(f"incarnation {inc} ended without result (exit {code}): {stderr}")
    return code, events, end


# ======================================================================================
# whole history
# ======================================================================================
def set_steps(path, steps):
    import tomli
    import tomli_w
    with open(path, "rb") as fh:
        cfg = tomli.load(fh)
    cfg["simulation"]["steps"] = steps
    with open(path, "wb") as fh:
        tomli_w.dump(cfg, fh)


_ROOT_SERIAL = [0]


def _fresh_root(base, seed):
    """Create and return a run root that no live or left-over run of this process tree uses.

    One case of C08 opens tens of thousands of run roots from one process and keeps a few alive at a
    time, so the name is a per-process serial number (never a hash of the clock, which collides), and
    an existing directory (left by a dead process whose pid was reused) is skipped, not an error.
    """
    os.makedirs(base, exist_ok=True)
    while True:
        _ROOT_SERIAL[0] += 1
        root = os.path.join(base, f"run-{seed}-{os.getpid()}-{_ROOT_SERIAL[0]}")
        try:
            os.mkdir(root)
            return root
        except FileExistsError:
            continue


def run_case(case, monitor_factory, history_checks=None, keep_dir=False, scratch_base=None,
             prebuilt=None, first_inc=0, pre_install=None):
    """Execute the history described by case['scn']['plan'].

    Returns dict(violations, events, trace, probes, faults, stats, digest, incs).
    """
    from sim.common import scratch_root, rm_tree
    scn = case["scn"]
    base = scratch_base or scratch_root()
    root = _fresh_root(base, case["seed"])
    rundir = os.path.join(root, "w")
    if prebuilt is None:
        os.makedirs(rundir)
    else:
        os.rename(prebuilt, rundir)
    res = {"violations": [], "events": [], "trace": [], "probes": {}, "faults": {},
           "stats": {}, "incs": [], "sim_time": 0.0, "ksteps": 0, "sigs": [], "mon": {}}
    decisions = case.get("decisions")
    try:
        if prebuilt is None:
            SC.build_rundir(scn, rundir)
        for inc, spec in enumerate(scn["plan"], first_inc):
            inp = spec.get("inp", "infretis.toml" if inc == 0 else "restart.toml")
            if inc > 0 and inp == "restart.toml" and not os.path.isfile(os.path.join(rundir, inp)):
                inp = "infretis.toml"     # nothing was ever completed: the user starts over
            spec = dict(spec, inp=inp)
            if spec.get("steps") is not None and os.path.isfile(os.path.join(rundir, inp)):
                if True:
                    try:
                        set_steps(os.path.join(rundir, inp), spec["steps"])
                    except Exception as exc:   # e.g. damaged restart file
                        res["events"].append({"ev": "user_edit_failed", "inc": inc,
                                              "exc": type(exc).__name__})
            code, events, end = run_incarnation(case, inc, spec, rundir, decisions, root,
                                                monitor_factory, pre_install=pre_install,
                                                timeout=case.get("inc_timeout", 240))
            for ev in events:
                ev["inc"] = inc
            res["events"].extend(events)
            res["trace"].extend(end["trace"])
            for key in ("probes", "faults"):
                for name, n in end[key].items():
                    res[key][name] = res[key].get(name, 0) + n
            for name, n in end["stats"].items():
                if name.startswith("max_"):
                    res["stats"][name] = max(res["stats"].get(name, 0), n)
                else:
                    res["stats"][name] = res["stats"].get(name, 0) + n
            res["violations"].extend(end["violations"])
            res["sim_time"] += end["sim_time"]
            res["ksteps"] += end["ksteps"]
            res["sigs"].append(end["sig"])
            res["mon"][inc] = end.get("mon", {})
            res["extra_last"] = end.get("extra", {})
            res["incs"].append({"inc": inc, "exit": code, "completed": end["completed"],
                                "consumed": end["consumed"], "inp": inp})
            if history_checks is not None:
                hv = history_checks(case, inc, spec, code, events, end, rundir, res)
                res["violations"].extend(hv or [])
            hard = [v for v in res["violations"] if not v.get("known")
                    and v["prop"] in case.get("props", [])]
            if hard:
                break
            if code == EXIT_STOP:
                break
        res["digest"] = digest_events(res["events"])
        if keep_dir:
            res["rundir"] = rundir
        return res
    except BaseException:
        rm_tree(root)
        raise
    finally:
        if not keep_dir:
            rm_tree(root)
