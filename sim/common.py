"""Shared plumbing: repo location, scratch space, batch runner, evidence, replays, known findings."""
import faulthandler
import json
import multiprocessing
import os
import shutil
import signal
import subprocess
import sys
import time
import traceback
from concurrent.futures import ProcessPoolExecutor, as_completed
from concurrent.futures.process import BrokenProcessPool

from sim.kernel import hash64

VERIF = os.path.dirname(os.path.dirname(os.path.abspath(__file__)))
REPO = os.environ.get("VERIF_REPO", "/repo")
LEVELS = {}


def use_repo():
    """Make `import infretis` resolve to the working tree under REPO."""
    if sys.path[0] != REPO:
        sys.path.insert(0, REPO)
    import infretis  # noqa
    got = os.path.dirname(os.path.dirname(os.path.abspath(infretis.__file__)))
    if os.path.realpath(got) != os.path.realpath(REPO):
        raise RuntimeError(f"infretis imported from {got}, wanted {REPO}")
    # warm the parent: forked incarnations inherit the imported (unpatched) modules
    import infretis.scheduler  # noqa
    import infretis.setup  # noqa
    import infretis.bin  # noqa
    import infretis.core.tis  # noqa
    import infretis.classes.repex  # noqa
    import infretis.classes.engines.factory  # noqa
    import tomli  # noqa
    import tomli_w  # noqa


def reexec_hashseed():
    """Re-exec the interpreter with PYTHONHASHSEED=0 (set iteration order is a seam)."""
    if os.environ.get("PYTHONHASHSEED") is None:
        env = dict(os.environ)
        env["PYTHONHASHSEED"] = "0"
        os.execve(sys.executable, [sys.executable] + sys.argv, env)


def _scratch_base():
    return "/dev/shm" if os.path.isdir("/dev/shm") and os.access("/dev/shm", os.W_OK) else (
        os.environ.get("TMPDIR", "/tmp"))


def scratch_root():
    """Per-process scratch directory under the scratch tree of the check that owns this process."""
    parent = os.environ.get("VERIF_SCRATCH_PARENT")
    if not parent:
        parent = os.path.join(_scratch_base(), f"vsim-{os.getpid()}")
        os.environ["VERIF_SCRATCH_PARENT"] = parent
        import atexit
        owner = os.getpid()
        atexit.register(lambda: os.getpid() == owner and shutil.rmtree(parent, ignore_errors=True))
    root = os.path.join(parent, str(os.getpid()))
    os.makedirs(root, exist_ok=True)
    return root


def sweep_stale_scratch():
    """Remove scratch trees whose owning process is gone (killed checks leave them behind)."""
    base = _scratch_base()
    try:
        names = os.listdir(base)
    except OSError:
        return
    for name in names:
        if not name.startswith("vsim-"):
            continue
        try:
            pid = int(name.split("-")[1])
        except ValueError:
            continue
        if pid == os.getpid():
            continue
        try:
            os.kill(pid, 0)
            alive = True
        except ProcessLookupError:
            alive = False
        except PermissionError:
            alive = True
        if not alive:
            shutil.rmtree(os.path.join(base, name), ignore_errors=True)


def repo_id():
    try:
        head = subprocess.run(["git", "-C", REPO, "rev-parse", "HEAD"], capture_output=True,
                              text=True, timeout=20).stdout.strip()
        diff = subprocess.run(["git", "-C", REPO, "diff", "HEAD", "--", "infretis"],
                              capture_output=True, timeout=20).stdout
        import hashlib
        return {"head": head, "dirty": hashlib.sha256(diff).hexdigest()[:16] if diff else ""}
    except Exception:
        return {"head": "unknown", "dirty": ""}


# --------------------------------------------------------------------------------------
# known findings
# --------------------------------------------------------------------------------------
def load_known():
    path = os.path.join(VERIF, "known_findings.json")
    try:
        with open(path) as fh:
            data = json.load(fh)
    except FileNotFoundError:
        data = {"known": [], "fixed": []}
    return data


def known_key(known, prop, vclass, site=None):
    """Return the known-finding entry that matches (property, class[, site]) or None."""
    for ent in known.get("known", []):
        if ent.get("property") != prop:
            continue
        if ent.get("class") != vclass:
            continue
        if ent.get("site") not in (None, site):
            continue
        return ent
    return None


# --------------------------------------------------------------------------------------
# batch runner
# --------------------------------------------------------------------------------------
class HarnessError(Exception):
    pass


def die_with_parent():
    """Linux: have the kernel kill this process when its parent goes away (no orphaned workers or forked
    incarnations spinning on after a check was killed or gave up)."""
    try:
        import ctypes
        ctypes.CDLL("libc.so.6", use_errno=True).prctl(1, signal.SIGKILL)      # PR_SET_PDEATHSIG
    except Exception:       # noqa
        pass


def _init_worker():
    signal.signal(signal.SIGINT, signal.SIG_IGN)
    die_with_parent()


class HardTimeout(BaseException):
    """Wall-clock limit of one run. Not an Exception, and re-armed after it fires: code under test that
    catches Exception (or even everything, once) cannot make a run immortal."""


def with_alarm(seconds, fn, *args):
    """fn(*args) under a wall-clock limit; raises HardTimeout."""
    def _alarm(signum, frame):
        signal.alarm(2)
        raise HardTimeout(f"run exceeded {seconds}s wall")
    old = signal.signal(signal.SIGALRM, _alarm)
    signal.alarm(max(1, int(seconds)))
    try:
        return fn(*args)
    finally:
        signal.alarm(0)
        signal.signal(signal.SIGALRM, old)


def _guarded(fn, case, run_timeout):
    """Run fn(case) in a pool worker with a hard per-run alarm."""
    def _alarm(signum, frame):
        signal.alarm(2)
        raise HardTimeout(f"run exceeded {run_timeout}s wall")
    old = signal.signal(signal.SIGALRM, _alarm)
    signal.alarm(int(run_timeout))
    faulthandler.dump_traceback_later(run_timeout + 30, exit=True)
    try:
        return fn(case)
    except (TimeoutError, HardTimeout) as exc:
        signal.alarm(0)
        return {"harness_error": f"timeout: {exc}", "case": case}
    except Exception as exc:  # harness bug, never a VIOLATION
        return {"harness_error": f"{type(exc).__name__}: {exc}\n{traceback.format_exc()[-1500:]}",
                "case": case}
    finally:
        signal.alarm(0)
        faulthandler.cancel_dump_traceback_later()
        signal.signal(signal.SIGALRM, old)


def run_batch(fn, case_iter, budget_s, nproc=None, run_timeout=300, stop_on=None, max_cases=None):
    """Run fn over cases from case_iter on a fork pool until the wall budget is spent.

    Yields (case, result) in completion order. `stop_on(result)` -> True stops drawing new cases.
    """
    nproc = nproc or int(os.environ.get("VERIF_NPROC", os.cpu_count() or 4))
    t0 = time.time()
    ctx = multiprocessing.get_context("fork")
    it = iter(case_iter)
    n_sub = 0
    stop = False
    with ProcessPoolExecutor(max_workers=nproc, mp_context=ctx, initializer=_init_worker) as pool:
        pending = {}

        def submit_more():
            nonlocal n_sub, stop
            while not stop and len(pending) < 2 * nproc:
                if time.time() - t0 > budget_s:
                    stop = True
                    break
                if max_cases is not None and n_sub >= max_cases:
                    stop = True
                    break
                try:
                    case = next(it)
                except StopIteration:
                    stop = True
                    break
                fut = pool.submit(_guarded, fn, case, run_timeout)
                pending[fut] = case
                n_sub += 1

        submit_more()
        while pending:
            try:
                done = next(as_completed(list(pending), timeout=run_timeout + 120))
            except TimeoutError:
                raise HarnessError("pool stalled: no completion within timeout")
            case = pending.pop(done)
            try:
                res = done.result()
            except BrokenProcessPool as exc:
                raise HarnessError(f"worker process died: {exc}")
            yield case, res
            if stop_on is not None and stop_on(res):
                stop = True
                for f in list(pending):
                    if f.cancel():
                        pending.pop(f)
            submit_more()


# --------------------------------------------------------------------------------------
# evidence / replay files
# --------------------------------------------------------------------------------------
def write_evidence(prop, tier, seed, level, coverage, wall_s, violations, assumptions, extra=None):
    os.makedirs(os.path.join(VERIF, "evidence"), exist_ok=True)
    doc = {
        "property_id": prop, "tier": tier, "seed": int(seed), "level": level,
        "coverage": coverage, "assumptions": assumptions, "wall_s": round(wall_s, 2),
        "violations": int(violations),
    }
    if extra:
        doc.update(extra)
    path = os.path.join(VERIF, "evidence", f"{prop}.json")
    tmp = path + ".tmp"
    with open(tmp, "w") as fh:
        json.dump(doc, fh, indent=1, default=str)
    os.replace(tmp, path)
    return path


def write_replay(prop, case, violation, digest, minimised, original_decisions, tier):
    os.makedirs(os.path.join(VERIF, "replays"), exist_ok=True)
    doc = {
        "property": prop, "violation": violation, "seed": case.get("seed"), "tier": tier,
        "repo": repo_id(), "case": case, "minimised": bool(minimised),
        "original_decisions": original_decisions, "digest": digest,
    }
    path = os.path.join(VERIF, "replays", f"{prop}-{case.get('seed')}.json")
    with open(path, "w") as fh:
        json.dump(doc, fh, indent=1, default=str)
    return path


def tier_from_env(argv_tier=None):
    return argv_tier or os.environ.get("VERIF_TIER", "quick")


def seed_from_env():
    try:
        return int(os.environ.get("VERIF_SEED", "20261001"))
    except ValueError:
        return hash64(os.environ.get("VERIF_SEED"))


def rm_tree(path):
    shutil.rmtree(path, ignore_errors=True)
