"""Layer B: the real aiorunner / future_list single-threaded under a virtual-time kernel.

The names `asyncio`, `threading`, `time`, `concurrent`, `multiprocessing` are rebound *in the
namespace of infretis.asyncrunner only*.  asyncio.Queue/Event/Task/sleep/run_in_executor and
BaseEventLoop._run_once stay real.
"""
import asyncio
import asyncio.base_events
import asyncio.events as _events
import concurrent.futures as _cf
import heapq
import threading as _threading

from sim.kernel import Kernel


class Hang(Exception):
    """The simulated system made no progress within the step budget."""


class _NullSelector:
    def select(self, timeout=None):
        return []

    def close(self):
        pass


class SimLoop(asyncio.base_events.BaseEventLoop):
    def __init__(self, ak, name):
        super().__init__()
        self.ak = ak
        self.name = name
        self._selector = _NullSelector()
        self.background = False
        self.finished = False
        self.turns = 0

    def time(self):
        return self.ak.k.now

    def _process_events(self, event_list):
        pass

    def _write_to_self(self):
        pass

    def run_forever(self):
        # the pseudo-thread body: from now on the kernel gives this loop turns
        self.background = True
        self.ak.register(self)

    def has_ready(self):
        return bool(self._ready) or self._stopping

    def next_timer(self):
        best = None
        for h in self._scheduled:
            if not h._cancelled and (best is None or h._when < best):
                best = h._when
        return best

    def due(self):
        nt = self.next_timer()
        return nt is not None and nt <= self.time() + self._clock_resolution

    def turn(self):
        """One scheduling quantum of this loop's thread: a real _run_once(), optionally cut short
        after the first m ready callbacks (another thread may run between any two callbacks)."""
        self.turns += 1
        held = None
        if len(self._ready) > 1 and self.ak.k.flip("partial_turn", self.ak.partial_p):
            m = 1 + self.ak.k.choose("turn_len", len(self._ready) - 1)
            ready = list(self._ready)
            held = ready[m:]
            self._ready.clear()
            self._ready.extend(ready[:m])
            self.ak.k.probe("partial_loop_turn")
        _events._set_running_loop(self)
        self._thread_id = _threading.get_ident()
        try:
            self._run_once()
        finally:
            self._thread_id = None
            _events._set_running_loop(None)
            if held:
                # the callbacks that did not get to run stay at the head of the queue, in order
                new = list(self._ready)
                self._ready.clear()
                self._ready.extend(held + new)
        if self._stopping:
            self._stopping = False
            self.finished = True
            self.ak.unregister(self)


class AioKernel:
    """Pumps the simulated loops and executor completions; owns all scheduling decisions."""

    def __init__(self, k, max_steps=400000, stall_p=0.0, partial_p=0.2):
        self.k = k
        self.partial_p = partial_p
        self.loops = []
        self.max_steps = max_steps
        self.steps = 0
        self.stall_p = stall_p
        self.stalls_in_row = 0
        self.sig = []

    def register(self, loop):
        if loop not in self.loops:
            self.loops.append(loop)

    def unregister(self, loop):
        if loop in self.loops:
            self.loops.remove(loop)

    # ---- one scheduling step -----------------------------------------------------------
    def _runnable(self):
        return [l for l in self.loops if l.has_ready() or l.due()]

    def step(self, horizon=None):
        """Run one thing: a due kernel event, a loop turn, or a clock jump. False if nothing can happen
        before `horizon`."""
        k = self.k
        self.steps += 1
        if self.steps > self.max_steps:
            raise Hang(f"no completion within {self.max_steps} kernel steps at t={k.now}")
        due_ev = bool(k._heap) and k._heap[0][0] <= k.now
        run = self._runnable()
        options = []
        if due_ev:
            options.append("event")
        options += run
        if options:
            idx = k.choose("turn", len(options)) if len(options) > 1 else 0
            pick = options[idx]
            if pick == "event":
                cb = k.pop_event()
                cb()
                self.sig.append("E")
            else:
                pick.turn()
                self.sig.append(pick.name[0])
            return True
        # nothing runnable: jump the clock
        times = [l.next_timer() for l in self.loops]
        times = [t for t in times if t is not None]
        if k._heap:
            times.append(k._heap[0][0])
        if not times:
            return False
        nxt = min(times)
        if horizon is not None and nxt > horizon:
            k.now = max(k.now, horizon)
            return False
        k.now = max(k.now, nxt)
        return True

    def pump_until(self, pred, timeout=None):
        """Drive the system until pred() or virtual timeout. Returns pred()."""
        horizon = None if timeout is None else self.k.now + timeout
        while not pred():
            if horizon is not None and self.k.now >= horizon:
                return pred()
            if not self.step(horizon):
                if horizon is not None:
                    self.k.now = max(self.k.now, horizon)
                    return pred()
                raise Hang(f"deadlock: nothing runnable and no timer pending at t={self.k.now}")
        return True

    def pump_for(self, duration):
        """The main thread sleeps for `duration`; the background may or may not get to run."""
        k = self.k
        horizon = k.now + duration
        if self.stall_p and self.stalls_in_row < 3 and k.flip("stall", self.stall_p):
            # stalled background thread: time passes, nothing runs
            self.stalls_in_row += 1
            k.fault("background_stalled")
            k.now = horizon
            return
        self.stalls_in_row = 0
        while k.now < horizon:
            if not self.step(horizon):
                break
        k.now = max(k.now, horizon)

    def yield_point(self):
        """A polling call of the main thread (Future.done()): let exactly one thing happen."""
        if not self.step(None):
            raise Hang(f"main thread spins on done() but nothing can ever happen (t={self.k.now})")


# ======================================================================================
# shims for the infretis.asyncrunner namespace
# ======================================================================================
class SimExecutor:
    def __init__(self, ak, durations, max_workers=None, **kw):
        self.ak = ak
        self.durations = durations      # callable(unit) -> virtual seconds
        self.max_workers = max_workers
        self.running = 0
        self.max_running = 0
        self.executed = []              # unit ids, in execution order
        self.on_violation = None
        self.broken = False
        self.pending = []

    def submit(self, fn, *args, **kwargs):
        from concurrent.futures.process import BrokenProcessPool, _RemoteTraceback
        import traceback as _tb
        k = self.ak.k
        if self.broken:
            raise BrokenProcessPool("A child process terminated abruptly, the process pool is not usable anymore")
        cf = _cf.Future()
        unit = fn.args[0] if hasattr(fn, "args") and fn.args else None
        self.running += 1
        self.max_running = max(self.max_running, self.running)
        dur = self.durations(unit)
        self.pending.append(cf)

        def complete():
            if cf.done():                      # already failed with the pool
                return
            self.running -= 1
            if cf in self.pending:
                self.pending.remove(cf)
            if isinstance(unit, dict) and unit.get("kills_pool"):
                # the worker process dies: every pending future fails, the pool is unusable
                self.broken = True
                self.ak.k.fault("pool_process_died")
                err = BrokenProcessPool("A process in the process pool was terminated abruptly "
                                        "while the future was running or pending.")
                cf.set_exception(err)
                for other in list(self.pending):
                    self.running -= 1
                    other.set_exception(BrokenProcessPool(str(err)))
                self.pending.clear()
                return
            try:
                res = fn(*args, **kwargs)
            except BaseException as exc:  # noqa
                # the process pool transports the remote traceback as __cause__
                exc.__cause__ = _RemoteTraceback("".join(_tb.format_exception(type(exc), exc, exc.__traceback__)))
                cf.set_exception(exc)
            else:
                cf.set_result(res)

        k.at(k.now + dur, complete)
        return cf

    def shutdown(self, wait=True, **kw):
        pass


class _PumpFuture:
    """concurrent.futures.Future look-alike returned by run_coroutine_threadsafe."""

    def __init__(self, ak, cf):
        self.ak, self.cf = ak, cf

    def result(self, timeout=None):
        ok = self.ak.pump_until(self.cf.done, timeout)
        if not ok:
            raise TimeoutError()
        return self.cf.result(0)

    def done(self):
        return self.cf.done()


class _Thread:
    def __init__(self, ak, target=None, daemon=None, **kw):
        self.ak, self.target = ak, target
        self.started = False
        self.loop = None

    def start(self):
        self.started = True
        before = list(self.ak.loops)
        self.target()
        new = [l for l in self.ak.loops if l not in before]
        self.loop = new[0] if new else None

    def join(self, timeout=None):
        if self.loop is None:
            return
        self.ak.pump_until(lambda: self.loop.finished, timeout)

    def is_alive(self):
        return self.loop is not None and not self.loop.finished


class _Namespace:
    def __init__(self, real, over):
        self.__dict__["_real"] = real
        self.__dict__["_over"] = over

    def __getattr__(self, name):
        if name in self._over:
            return self._over[name]
        return getattr(self._real, name)


def make_shims(ak, durations, recorder):
    """Return the dict of names to rebind in infretis.asyncrunner."""
    import multiprocessing as _mp
    import time as _time

    class SimFuture(asyncio.Future):
        """asyncio.Future whose done() is a yield point of the polling main thread."""

        def __init__(self, *a, **kw):
            super().__init__(*a, **kw)
            recorder.new_future(self)

        def done(self):
            if recorder.main_polling and not super().done():
                ak.yield_point()
            return super().done()

        def set_result(self, result):
            recorder.completed(self, "result")
            return super().set_result(result)

        def set_exception(self, exc):
            recorder.completed(self, "exception")
            return super().set_exception(exc)

    def new_event_loop():
        n = len(recorder.loops)
        loop = SimLoop(ak, "bg" if n == 0 else f"x{n}")
        recorder.loops.append(loop)
        return loop

    def run_coroutine_threadsafe(coro, loop):
        cf = asyncio.run_coroutine_threadsafe(coro, loop)
        return _PumpFuture(ak, cf)

    def run(coro, **kw):
        # the main thread runs a private loop; the background thread keeps running meanwhile
        loop = SimLoop(ak, "main")
        ak.register(loop)
        try:
            task = loop.create_task(coro)
            ak.pump_until(task.done)
            return task.result()
        finally:
            ak.unregister(loop)
            loop.close()

    aio = _Namespace(asyncio, {
        "new_event_loop": new_event_loop, "run_coroutine_threadsafe": run_coroutine_threadsafe,
        "run": run, "Future": SimFuture, "set_event_loop": lambda loop: None,
    })
    thr = _Namespace(_threading, {"Thread": lambda **kw: _Thread(ak, **kw)})
    tim = _Namespace(_time, {"sleep": ak.pump_for, "time": lambda: 1.0e9 + ak.k.now})

    class _Futures:
        Executor = _cf.Executor

        @staticmethod
        def ProcessPoolExecutor(**kw):
            ex = SimExecutor(ak, durations, **kw)
            recorder.executors.append(ex)
            return ex

    conc = _Namespace(__import__("concurrent"), {"futures": _Futures})

    class _Value:
        def __init__(self, typ, val):
            self.value = val

        def get_lock(self):
            return _threading.Lock()

    mp = _Namespace(_mp, {"Value": _Value, "get_context": lambda name: None})
    return {"asyncio": aio, "threading": thr, "time": tim, "concurrent": conc, "multiprocessing": mp,
            "SimFuture": SimFuture}


class Recorder:
    def __init__(self):
        self.loops = []
        self.executors = []
        self.futures = []
        self.completions = {}      # id(fut) -> list of kinds
        self.main_polling = False

    def new_future(self, fut):
        self.futures.append(fut)

    def completed(self, fut, kind):
        self.completions.setdefault(id(fut), []).append(kind)


def install(ak, durations):
    """Rebind names in infretis.asyncrunner; returns (module, recorder)."""
    import logging
    import infretis.asyncrunner as AR
    logging.getLogger("asyncio").setLevel(logging.CRITICAL)
    rec = Recorder()
    shims = make_shims(ak, durations, rec)
    for name in ("asyncio", "threading", "time", "concurrent", "multiprocessing"):
        setattr(AR, name, shims[name])
    return AR, rec
