"""Scenario generation and run-directory construction for scheduler-level simulation."""
import os
import shutil

import tomli_w

VERIF = os.path.dirname(os.path.dirname(os.path.abspath(__file__)))
LATTICE_MODULE = os.path.join(VERIF, "sim", "engines", "lattice_engine.py")
REPO = os.environ.get("VERIF_REPO", "/repo")

ORDER_MODELS = ["uniform", "frames", "inverse", "slow_pin", "stall", "fifo", "lifo", "random"]


def gen_scenario(rng, profile=None):
    """Draw a scheduler scenario from a random.Random. `profile` overrides/limits choices."""
    p = dict(profile or {})
    n_intf = p.get("n_intf") or rng.choice(p.get("n_intf_choices", [2, 3, 3, 4, 4, 5, 6, 8]))
    n_ens = n_intf
    moves = ["sh"]
    wf_p = p.get("wf_p", rng.choice([0.0, 0.0, 0.3, 0.6, 1.0]))
    for _ in range(n_ens - 1):
        moves.append("wf" if rng.random() < wf_p else "sh")
    if "moves" in p:
        moves = list(p["moves"])
    maxw = max(1, n_ens - 1)
    workers = p.get("workers") or rng.choice(
        p.get("workers_choices", [1] + list(range(1, maxw + 1)) + [maxw]))
    workers = min(workers, maxw)
    # interface cap: only meaningful with wf; must leave room for every wf ensemble
    cap = None
    wf_idx = [i - 1 for i, m in enumerate(moves) if m == "wf" and i >= 1]  # plus-ensemble index
    if wf_idx and rng.random() < p.get("cap_p", 0.35) and n_intf >= 3:
        lo = max(wf_idx) + 1        # lambda index: cap >= lambda_{imax+1}
        if lo <= n_intf - 1:
            cap = rng.choice(range(lo, n_intf)) + 0.5
    steps = p.get("steps") or rng.choice(p.get("steps_choices", [6, 10, 16, 24, 40]))
    steps = max(steps, workers)
    scn = {
        "engine": p.get("engine", "lattice"),
        "n_intf": n_intf,
        "moves": moves,
        "cap": cap,
        "workers": workers,
        "steps": steps,
        "config_seed": p.get("config_seed", rng.choice([0, 1, 2, 7, rng.randrange(1, 2**31)])),
        "n_jumps": rng.choice([1, 2, 3, 6]),
        "maxlength": p.get("maxlength") or rng.choice([12, 20, 40, 200, 2000]),
        "allowmaxlength": p.get("allowmaxlength", rng.random() < 0.2),
        "lambda_minus_one": p.get("lambda_minus_one", rng.random() < 0.15),
        "delete_old": p.get("delete_old", rng.random() < 0.5),
        "delete_old_all": False,
        "multi_engine": p.get("multi_engine", rng.random() < 0.3),
        "order_model": p.get("order_model") or rng.choice(ORDER_MODELS),
        "screen": p.get("screen", rng.choice([0, 0, 1, 3])),
        "pattern": p.get("pattern", rng.random() < 0.2),
        "wall": -3,
        "keep_aux": False,
    }
    if scn["delete_old"]:
        scn["delete_old_all"] = p.get("delete_old_all", rng.random() < 0.5)
    scn["plan"] = p.get("plan") or [{"inp": "infretis.toml", "steps": steps}]
    # a collective-variable column of large magnitude next to the order parameter (energy-like values)
    scn["big_cv"] = p.get("big_cv", rng.choice([0.0] * 8 + [-23456.789012, 250000.125, -1500000.5]))
    scn["energies"] = p.get("energies", rng.random() < 0.3)      # lattice frames carry vpot/ekin
    scn["keep_aux"] = p.get("keep_aux", rng.random() < 0.15)    # output.keep_traj_fnames = [".aux"]
    scn["stale_data_file"] = p.get("stale_data_file", rng.random() < 0.15)
    if scn["engine"] == "turtlemd":
        scn["keep_aux"] = False
        # the repository's double-well example: 8 interfaces, real TurtleMD integrators
        scn["n_intf"] = 8
        scn["moves"] = ["sh", "sh"] + [rng.choice(["sh", "wf"]) for _ in range(6)]
        scn["cap"] = None
        scn["lambda_minus_one"] = False
        scn["multi_engine"] = False
        scn["maxlength"] = p.get("maxlength", 2000)
        scn["workers"] = min(scn["workers"], 7)
        scn["integrator"] = p.get("integrator", "LangevinInertia")
        scn["rounded_op"] = bool(p.get("rounded_op", False))
        scn["grid_op"] = bool(p.get("grid_op", False))
    return scn


def interfaces_of(scn):
    return [k + 0.5 for k in range(scn["n_intf"])]


def initial_orders(scn):
    """Valid initial order-parameter sequences for [0-], [0+], [1+], ..."""
    n = scn["n_intf"]
    paths = [[1, 0, 1], [0, 1, 0]]
    for i in range(1, n - 1):
        up = list(range(0, i + 2))           # 0..i+1  crosses lambda_i = i+.5
        paths.append(up + up[-2::-1])
    return paths


def build_config(scn):
    intf = interfaces_of(scn)
    n_ens = scn["n_intf"]
    tis = {
        "maxlength": scn["maxlength"],
        "allowmaxlength": scn["allowmaxlength"],
        "zero_momentum": False,
        "n_jumps": scn["n_jumps"],
    }
    if scn["cap"] is not None:
        tis["interface_cap"] = scn["cap"]
    if scn["lambda_minus_one"]:
        tis["lambda_minus_one"] = float(scn["wall"]) - 0.5 + 2.0   # -1.5: inside the walk's range
    cfg = {
        "runner": {"workers": scn["workers"]},
        "simulation": {
            "interfaces": intf,
            "steps": scn["steps"],
            "seed": scn["config_seed"],
            "load_dir": "load",
            "shooting_moves": list(scn["moves"]),
            "tis_set": tis,
        },
        "orderparameter": {"class": "Position", "index": [0, 0], "periodic": False},
        "output": {
            "data_dir": "./",
            "screen": scn["screen"],
            "pattern": bool(scn["pattern"]),
            "delete_old": bool(scn["delete_old"]),
            "delete_old_all": bool(scn["delete_old_all"]),
        },
    }
    eng = {"class": "LatticeEngine", "module": LATTICE_MODULE, "wall": scn["wall"],
           "timestep": 1.0, "subcycles": 1}
    if scn.get("big_cv"):
        eng["big_cv"] = scn["big_cv"]
    if scn.get("energies"):
        eng["energies"] = True
    if scn.get("keep_aux"):
        eng["aux"] = True
        cfg["output"]["keep_traj_fnames"] = [".aux"]
    if scn["engine"] == "lattice":
        cfg["engine"] = dict(eng)
        if scn["multi_engine"]:
            cfg["engine2"] = dict(eng)
            cfg["engine3"] = dict(eng)
            names = ["engine", "engine2", "engine3"]
            ens_engs = []
            for i in range(n_ens):
                # [0-] and [0+] share "engine" in half the layouts, else differ
                ens_engs.append([names[(i * 7 + scn["config_seed"]) % 3]])
            cfg["simulation"]["ensemble_engines"] = ens_engs
    else:
        raise ValueError(scn["engine"])
    return cfg


def stale_data_content():
    txt = "# ======\n# \txxx\tlen\tmax OP\t\t000\t001\n# ======\n"
    for pn in range(0, 6):
        txt += f"\t{pn:3.0f}\t    5\t 1.00000\t----\t1.0\t----\t1.0\t\n"
    return txt


def build_rundir(scn, rundir):
    """Create infretis.toml and load/<i>/ initial paths in rundir."""
    os.makedirs(rundir, exist_ok=True)
    if scn["engine"] == "turtlemd":
        return build_rundir_turtle(scn, rundir)
    if scn.get("stale_data_file"):
        # the directory already holds the data file of an earlier run: this run writes infretis_data_1.txt
        with open(os.path.join(rundir, "infretis_data.txt"), "w") as fh:
            fh.write(stale_data_content())
    cfg = build_config(scn)
    if scn.get("abs_load_dir"):
        cfg["simulation"]["load_dir"] = os.path.join(os.path.abspath(rundir), "load")
    with open(os.path.join(rundir, "infretis.toml"), "wb") as fh:
        tomli_w.dump(cfg, fh)
    for i, orders in enumerate(initial_orders(scn)):
        pdir = os.path.join(rundir, "load", str(i))
        os.makedirs(os.path.join(pdir, "accepted"))
        with open(os.path.join(pdir, "accepted", "traj.lat"), "w") as fh:
            for x in orders:
                fh.write(f"{x}\n")
        with open(os.path.join(pdir, "traj.txt"), "w") as fh:
            fh.write("#       time        trajfile      index   vel\n")
            for j in range(len(orders)):
                fh.write(f"{j:>10}  {'traj.lat':>20s}  {j:>10}  {1:>5}\n")
        with open(os.path.join(pdir, "order.txt"), "w") as fh:
            fh.write("#       time      orderparam\n")
            for j, x in enumerate(orders):
                cv = f" {scn['big_cv'] + x:>12.6f}" if scn.get("big_cv") else ""
                fh.write(f"{j:>10d} {float(x):>12.6f}{cv}\n")
    return cfg


def build_rundir_turtle(scn, rundir):
    """TurtleMD double-well scenario built from the repository's own example."""
    import tomli
    src = os.path.join(REPO, "examples", "turtlemd", "double_well")
    shutil.copytree(os.path.join(src, "load_copy"), os.path.join(rundir, "load"))
    shutil.copy(os.path.join(src, "orderp.py"), rundir)
    if scn.get("rounded_op"):
        # order parameter representable at the six decimals of the stored order files (scope of C06)
        with open(os.path.join(rundir, "orderp.py"), "a") as fh:
            fh.write("\n\n_orig_calculate = PositionX.calculate\n\n\n"
                     "def _rounded(self, system):\n"
                     "    return [round(float(x), 6) for x in _orig_calculate(self, system)]\n\n\n"
                     "PositionX.calculate = _rounded\n")
    if scn.get("grid_op"):
        # an order parameter that often lies 3e-7 above a multiple of 0.01 (the example's interfaces are
        # such multiples): in memory it is beyond the interface, the six decimals of order.txt are not
        with open(os.path.join(rundir, "orderp.py"), "a") as fh:
            fh.write("\n\n_orig_calculate = PositionX.calculate\n\n\n"
                     "def _grid(self, system):\n"
                     "    return [round(float(x), 2) + 3e-7 for x in _orig_calculate(self, system)]\n\n\n"
                     "PositionX.calculate = _grid\n")
    with open(os.path.join(REPO, "test", "simulations", "data", "wf.toml"), "rb") as fh:
        cfg = tomli.load(fh)
    cfg["runner"]["workers"] = scn["workers"]
    cfg["simulation"]["steps"] = scn["steps"]
    cfg["simulation"]["seed"] = scn["config_seed"]
    cfg["simulation"]["shooting_moves"] = list(scn["moves"])
    cfg["simulation"]["tis_set"]["allowmaxlength"] = scn["allowmaxlength"]
    cfg["simulation"]["tis_set"]["n_jumps"] = scn["n_jumps"]
    cfg["simulation"]["tis_set"]["maxlength"] = scn["maxlength"]
    cfg["engine"]["integrator"]["class"] = scn.get("integrator", "LangevinInertia")
    if scn.get("integrator") == "VelocityVerlet":
        cfg["engine"]["integrator"]["settings"] = {}
    cfg["output"]["screen"] = scn["screen"]
    cfg["output"]["pattern"] = bool(scn["pattern"])
    cfg["output"]["delete_old"] = bool(scn["delete_old"])
    cfg["output"]["delete_old_all"] = bool(scn["delete_old_all"])
    with open(os.path.join(rundir, "infretis.toml"), "wb") as fh:
        tomli_w.dump(cfg, fh)
    return cfg
