"""Layer C: simulated external MD programs at the process-API and file-format level.

`ProcSim` owns virtual time for one engine call: every patched sleep() is one tick; at each tick the
running program may append bytes to its real output files (a seeded number of bytes: nothing, part of
a frame, several frames, everything), appear late, exit, or fail.
"""
import json
import os
import signal

import numpy as np

from sim import proc_sim as P


class EngineHang(BaseException):
    """The engine never returns (not an Exception: engine code must not be able to swallow it)."""


class ProgramBase:
    """A running simulated program (what subprocess.Popen returns)."""

    def __init__(self, sim, cmd, cwd):
        self.sim = sim
        self.cmd = list(cmd)
        self.cwd = cwd
        self.pid = 500000 + len(sim.procs)
        self.returncode = None
        self.stdin = self.stdout = self.stderr = None
        self.sigterm = False
        self.term_left = 0         # ticks the program survives its SIGTERM (it keeps writing meanwhile)
        self.waited = False
        self.exited_naturally = False
        sim.procs.append(self)

    def signal_term(self):
        """SIGTERM delivered: the program (an MPI job, say) dies a seeded 0..2 ticks later."""
        if self.sigterm or self.returncode is not None:
            return
        self.sigterm = True
        self.term_left = self.sim.k.choose("term_delay", 3)
        if self.term_left:
            self.sim.k.fault("program_survives_sigterm")

    # --- process API
    def poll(self):
        self.sim.npolls += 1
        return self.returncode

    def wait(self, timeout=None):
        self.waited = True
        if self.returncode is None:
            if self.sigterm:
                while self.term_left > 0 and self.returncode is None:
                    self.tick()                 # what it still writes before it dies
                if self.returncode is None:
                    self.returncode = -signal.SIGTERM
            else:
                # blocking wait for a program that is still running: let it run to its end
                guard = 0
                while self.returncode is None:
                    self.tick()
                    guard += 1
                    if guard > 100000:
                        raise RuntimeError("simulated program never ends")
        return self.returncode

    def communicate(self, input=None, timeout=None):
        self.wait()
        return (b"", b"")

    def terminate(self):
        self.signal_term()

    def kill(self):
        self.sigterm = True
        self.term_left = 0

    def tick(self):
        pass


class TrajProgram(ProgramBase):
    """A program that produces frames; subclasses encode them into output files."""

    def __init__(self, sim, cmd, cwd):
        super().__init__(sim, cmd, cwd)
        self.k = sim.k
        self.writers = []          # ChunkWriter per output file (all share frame count)
        self.nframes = 0
        self.truth = []            # per frame: dict(pos, vel, box, ekin, vpot) as *written* (text-rounded)
        self.appear_after = 0
        self.ticks = 0
        self.fail_at = None        # (frame index after which it dies, code) or None
        self.linger = 0

    def plan(self):
        k, scn = self.k, self.sim.scn
        self.appear_after = k.choose("appear", 3)
        mode = scn.get("chunk_mode", "mixed")
        self.chunk_mode = mode
        if scn.get("fail") and k.flip("fail_now", 0.5 if scn.get("fail") == "maybe" else 1.0):
            # positive exit codes and deaths by signal (negative return codes)
            self.fail_at = (k.choose("fail_frame", self.nframes + 1),
                            [1, 2, 3, -9, -11, 139][k.choose("fail_code", 6)])
            self.sim.k.fault("program_nonzero_exit")
            if self.fail_at[0] == 0 and k.flip("dies_before_output", 0.5):
                # e.g. a broken input file: the program exits before it creates any output file
                self.no_files = True
                self.sim.k.fault("program_dies_before_creating_output")
        self.early = False
        if self.fail_at is None and scn.get("early_exit") and k.flip("early_exit", 0.8):
            # the program ends normally (code 0) before the requested number of steps
            nf = 1 + k.choose("early_frames", self.nframes)
            hint = scn.get("early_hint")
            if hint and k.flip("early_at_hint", 0.6):
                # e.g. a wrapper script that ends the program soon after the frame the scenario
                # expects to end the path
                nf = max(1, min(self.nframes, int(hint) + k.choose("early_hint_extra", 2)))
            self.fail_at = (nf, 0)
            self.early = True
            self.sim.k.fault("program_early_exit_0")
        self.linger = k.choose("linger", 3)
        if scn.get("instant") and k.flip("instant", 0.5):
            # the whole run is over before the engine polls for the first time
            self.sim.k.fault("finished_before_first_poll")
            self._write_frames(self._limit())
            self._finish(self.fail_at[1] if self.fail_at is not None else 0)

    def _limit(self):
        return self.nframes if self.fail_at is None else min(self.nframes, self.fail_at[0])

    def _write_frames(self, upto_frame, extra_bytes=0):
        for w in self.writers:
            end = w.frame_ends[upto_frame - 1] if upto_frame > 0 else 0
            w.write_upto(min(len(w.data), end + extra_bytes))
        self.after_write()

    def after_write(self):
        pass

    def frames_on_disk(self):
        return min(w.complete_frames() for w in self.writers) if self.writers else 0

    def _finish(self, code):
        self.returncode = code
        self.exited_naturally = True

    def tick(self):
        if self.returncode is not None:
            return
        if self.sigterm:
            if self.term_left <= 0:
                self.returncode = -signal.SIGTERM      # died of the signal; poll() sees it without wait()
                return
            self.term_left -= 1
        self.ticks += 1
        if self.ticks <= self.appear_after:
            return
        if getattr(self, "no_files", False):
            self._finish(self.fail_at[1])
            return
        for w in self.writers:
            w.create()
        self.after_write()
        k = self.k
        limit = self._limit()
        done = self.frames_on_disk()
        if done >= limit and all(w.pos >= (w.frame_ends[limit - 1] if limit else 0) for w in self.writers):
            if self.linger > 0:
                self.linger -= 1
                return
            if self.fail_at is not None:
                self._finish(self.fail_at[1])
            else:
                self._finish(0)
            return
        mode = self.chunk_mode
        if mode == "tail1":
            # everything but the last frame in one go, then the last frame and the exit in one instant
            if done < limit - 1:
                self._write_frames(limit - 1)
                return
            self._write_frames(limit)
            self.sim.k.probe("exit_with_last_write")
            self._finish(self.fail_at[1] if self.fail_at is not None else 0)
            return
        # neutral decision (0) must make progress: exactly one more frame
        choice = k.choose("chunk", 6) if mode == "mixed" else {"frame": 0, "burst": 3, "bytes": 2, "all": 5}.get(mode, 0)
        if choice == 1:
            self.sim.k.probe("empty_poll")
            return                                              # nothing new this tick
        if choice == 0:
            self._write_frames(min(limit, done + 1))            # exactly one more frame
        elif choice == 2:
            # a few bytes: frames are torn mid-number / mid-line / mid-header
            self.sim.k.probe("torn_frame_at_poll")
            for w in self.writers:
                nxt = w.frame_ends[min(limit, done + 1) - 1] if limit else 0
                room = max(0, nxt - w.pos)
                if room > 0:
                    w.write_upto(w.pos + 1 + k.choose("nbytes", room))
            self.after_write()
        elif choice == 3:
            n = 2 + k.choose("burst", 4)
            self.sim.k.probe("several_frames_in_one_poll")
            self._write_frames(min(limit, done + n))
        elif choice == 4:
            # files out of step: advance only one of the output files
            if len(self.writers) > 1:
                self.sim.k.probe("files_out_of_step")
                w = self.writers[k.choose("which", len(self.writers))]
                tgt = min(limit, w.complete_frames() + 1 + k.choose("ahead", 3))
                w.write_upto(w.frame_ends[tgt - 1] if tgt else 0)
                self.after_write()
            else:
                self._write_frames(min(limit, done + 1))
        else:
            self._write_frames(limit)
        # the program may end in the same instant as its last write (no poll in between)
        if (self.returncode is None and self.linger == 0 and self.frames_on_disk() >= limit
                and all(w.pos >= (w.frame_ends[limit - 1] if limit else 0) for w in self.writers)
                and k.flip("exit_with_last_write", 0.5)):
            self.sim.k.probe("exit_with_last_write")
            self._finish(self.fail_at[1] if self.fail_at is not None else 0)


class ProcSim:
    """Per-engine-call simulation context: patched subprocess / sleep / os for one engine module."""

    def __init__(self, k, scn, factory):
        self.k = k
        self.scn = scn
        self.factory = factory     # callable(sim, cmd, cwd) -> program
        self.procs = []
        self.npolls = 0
        self.nsleeps = 0
        self.idle_sleeps = 0
        self.spin = 0
        self.killed = []
        self.inputs = []
        self.edr = {}

    # names to rebind in the engine module
    def sleep(self, dt=0.0):
        self.nsleeps += 1
        self.spin = 0
        self.k.now += max(dt, 0.0)
        if self.procs and all(p.returncode is not None for p in self.procs):
            self.idle_sleeps += 1
            if self.idle_sleeps > 2000:
                # bounded liveness: every program ended 2000 polls ago and the engine is still polling
                raise EngineHang(f"engine still polling {self.idle_sleeps} sleeps after every program ended")
        else:
            self.idle_sleeps = 0
        if self.nsleeps > 3_000_000:
            raise EngineHang(f"engine polled {self.nsleeps} times")
        for p in self.procs:
            p.tick()

    class _Subprocess:
        PIPE = -1
        STDOUT = -2
        DEVNULL = -3

        def __init__(self, sim):
            self._sim = sim

        def Popen(self, cmd, **kw):
            return self._sim.factory(self._sim, cmd, kw.get("cwd"))

    def subprocess(self):
        return ProcSim._Subprocess(self)

    def os_shim(self):
        sim = self

        class _Path:
            """os.path with a spin bound: an engine loop that polls the file system without ever
            sleeping again is reported instead of hanging the run."""

            def __getattr__(self, name):
                real = getattr(os.path, name)
                if name not in ("getsize", "isfile", "exists", "getmtime"):
                    return real

                def counted(*a, **kw):
                    sim.spin += 1
                    if sim.spin > 200000:
                        raise EngineHang(f"engine polled the file system {sim.spin} times without sleeping")
                    return real(*a, **kw)
                return counted
        path_proxy = _Path()

        class _Os:
            def __getattr__(self, name):
                if name == "path":
                    return path_proxy
                if name == "setsid":
                    return None
                if name == "getpgid":
                    return lambda pid: pid
                if name == "killpg":
                    def killpg(pgid, sig):
                        for p in sim.procs:
                            if p.pid == pgid and p.returncode is None:
                                p.signal_term()
                                sim.killed.append(pgid)
                    return killpg
                if name == "getpid":
                    return lambda: 3141592
                return getattr(os, name)
        return _Os()


# ======================================================================================
# LAMMPS
# ======================================================================================
def _g(x):
    return f"{x:.10g}"


def parse_lammps_conf(path):
    with open(path) as fh:
        lines = fh.read().split("\n")
    i = next(n for n, l in enumerate(lines) if l.startswith("ITEM: BOX BOUNDS"))
    box = [[float(x) for x in lines[i + 1 + d].split()[:2]] for d in range(3)]
    j = next(n for n, l in enumerate(lines) if l.startswith("ITEM: ATOMS"))
    rows = [l.split() for l in lines[j + 1:] if l.strip()]
    rows.sort(key=lambda r: int(float(r[0])))
    pos = np.array([[float(v) for v in r[2:5]] for r in rows])
    vel = np.array([[float(v) for v in r[5:8]] for r in rows])
    types = [int(float(r[1])) for r in rows]
    return pos, vel, np.array(box), types


class LammpsProgram(TrajProgram):
    def __init__(self, sim, cmd, cwd):
        super().__init__(sim, cmd, cwd)
        inp = cmd[cmd.index("-i") + 1]
        var = {}
        with open(inp) as fh:
            for line in fh:
                sp = line.split()
                if len(sp) >= 4 and sp[0] == "variable" and sp[2] == "index":
                    var[sp[1]] = sp[3]
        self.var = var
        sim.inputs.append(dict(var))
        name = var["name"]
        nsteps, sub = int(var["nsteps"]), int(var["subcycles"])
        self.nframes = nsteps // sub + 1
        pos, vel, box, types = parse_lammps_conf(var["initconf"])
        dt = float(var["timestep"]) * sub * sim.scn.get("dt_scale", 1.0)
        grow = sim.scn.get("box_growth", 0.0)
        n = len(pos)
        data, ends, thermo = b"", [], []
        rng = np.random.default_rng(sim.k.choose("shuffle_seed", 1 << 30))
        for f in range(self.nframes):
            p = pos + vel * dt * f
            b = box.copy()
            b[:, 1] = box[:, 0] + (box[:, 1] - box[:, 0]) * (1.0 + grow * f)
            order = list(range(n))
            if sim.scn.get("shuffle_ids", True):
                rng.shuffle(order)
            lines = ["ITEM: TIMESTEP", str(f * sub), "ITEM: NUMBER OF ATOMS", str(n),
                     "ITEM: BOX BOUNDS pp pp pp"]
            for d in range(3):
                lines.append(f"{b[d,0]:.16e} {b[d,1]:.16e}")
            lines.append("ITEM: ATOMS id type x y z vx vy vz id")
            for a in order:
                lines.append(f"{a+1} {types[a]} " + " ".join(_g(x) for x in p[a]) + " " +
                             " ".join(_g(x) for x in vel[a]) + f" {a+1}")
            data += ("\n".join(lines) + "\n").encode()
            ends.append(len(data))
            pt = np.array([[float(_g(x)) for x in row] for row in p])
            vt = np.array([[float(_g(x)) for x in row] for row in vel])
            bt = np.array([[float(f"{b[d,0]:.16e}"), float(f"{b[d,1]:.16e}")] for d in range(3)])
            ke = 0.5 * float(np.sum(vt ** 2)) + 0.001 * f
            pe = -1.0 - 0.01 * f
            self.truth.append({"pos": pt, "vel": vt, "box": bt, "ekin": ke, "vpot": pe})
            thermo.append(f"{f*sub:10d} {ke:.10g} {pe:.10g} {ke+pe:.10g} 300")
        self.thermo = thermo
        self.traj_file = os.path.join(cwd, f"{name}.lammpstrj")
        self.log_file = os.path.join(cwd, "log.lammps")
        self.writers = [P.ChunkWriter(self.traj_file, data, ends)]
        self.plan()
        self.after_write()

    def after_write(self):
        # LAMMPS keeps its log up to date with the thermo output
        n = self.frames_on_disk()
        with open(self.log_file, "w") as fh:
            fh.write("LAMMPS (simulated)\n   Step         KinEng         PotEng         TotEng          Temp\n")
            for line in self.thermo[:max(n, 1)]:
                fh.write(line + "\n")
            if self.returncode == 0:
                fh.write("Loop time of 0.1 on 1 procs\n")


# ======================================================================================
# CP2K
# ======================================================================================
def parse_cp2k_input(path):
    """Very small section-aware reader: returns {section path: [lines]}."""
    out, stack = {}, []
    with open(path) as fh:
        for raw in fh:
            line = raw.strip()
            if not line or line.startswith("#"):
                continue
            if line.upper().startswith("&END"):
                if stack:
                    stack.pop()
                continue
            if line.startswith("&"):
                stack.append(line[1:].split()[0].upper())
                out.setdefault("->".join(stack), [])
                continue
            out.setdefault("->".join(stack), []).append(line)
    return out


def _f10(x):
    return f"{x:.10f}"


class Cp2kProgram(TrajProgram):
    def __init__(self, sim, cmd, cwd):
        super().__init__(sim, cmd, cwd)
        inp = os.path.join(cwd, cmd[cmd.index("-i") + 1])
        sec = parse_cp2k_input(inp)
        get = lambda path, key: next(l.split()[1:] for l in sec.get(path, []) if l.split()[0].upper() == key)
        name = get("GLOBAL", "PROJECT")[0]
        steps = int(get("MOTION->MD", "STEPS")[0])
        tstep = float(get("MOTION->MD", "TIMESTEP")[0])
        freq = int(get("MOTION->PRINT->TRAJECTORY->EACH", "MD")[0])
        coord = get("FORCE_EVAL->SUBSYS->TOPOLOGY", "COORD_FILE_NAME")[0]
        vel = np.array([[float(x) for x in l.split()] for l in sec.get("FORCE_EVAL->SUBSYS->VELOCITY", [])])
        sim.inputs.append({"name": name, "steps": steps, "freq": freq, "coord": coord})
        names, pos = [], []
        with open(os.path.join(cwd, coord)) as fh:
            lines = fh.read().split("\n")
        n = int(lines[0].split()[0])
        for l in lines[2:2 + n]:
            sp = l.split()
            names.append(sp[0])
            pos.append([float(x) for x in sp[1:4]])
        pos = np.array(pos)
        self.nframes = steps // freq + 1
        dt = tstep * freq * sim.scn.get("dt_scale", 1.0)
        box = sim.scn.get("cp2k_box", [30.0, 30.0, 30.0])
        pdat, vdat, pends, vends, ener = b"", b"", [], [], []
        for f in range(self.nframes):
            p = pos + vel * dt * f
            pdat += P.xyz_frame(f * freq, names, p, "f10", time=f * dt)
            vdat += P.xyz_frame(f * freq, names, vel, "f10", time=f * dt)
            pends.append(len(pdat))
            vends.append(len(vdat))
            pt = np.array([[float(_f10(x)) for x in row] for row in p])
            vt = np.array([[float(_f10(x)) for x in row] for row in vel])
            ke = 0.5 * float(np.sum(vt ** 2)) + 0.001 * f
            pe = -2.0 - 0.01 * f
            self.truth.append({"pos": pt, "vel": vt, "box": np.array([[0.0, b] for b in box]),
                               "ekin": ke, "vpot": pe})
        for s in range(steps + 1):
            f = s / freq
            ener.append(f"{s:10d} {s*tstep:12.6f} {0.5*float(np.sum(vel**2)) + 0.001*f:.10f} 300.0 "
                        f"{-2.0 - 0.01*f:.10f} 0.0 0.0")
        self.ener = ener
        self.freq = freq
        self.pos_file = os.path.join(cwd, f"{name}-pos-1.xyz")
        self.vel_file = os.path.join(cwd, f"{name}-vel-1.xyz")
        self.ener_file = os.path.join(cwd, f"{name}-1.ener")
        self.traj_file = os.path.join(cwd, f"{name}.xyz")     # written by the engine itself
        self.writers = [P.ChunkWriter(self.pos_file, pdat, pends), P.ChunkWriter(self.vel_file, vdat, vends)]
        self.plan()
        self.after_write()

    def after_write(self):
        n = max(w.complete_frames() for w in self.writers)
        with open(self.ener_file, "w") as fh:
            fh.write("#     Step Nr.          Time[fs]        Kin.[a.u.]          Temp[K]            Pot.[a.u.]\n")
            for line in self.ener[:max(1, (n - 1) * self.freq + 1)]:
                fh.write(line + "\n")


# ======================================================================================
# GROMACS (grompp, mdrun, energy)
# ======================================================================================
def parse_mdp(path):
    out = {}
    with open(path) as fh:
        for line in fh:
            line = line.split(";")[0].strip()
            if "=" in line:
                key, val = line.split("=", 1)
                out[key.strip().replace("-", "_")] = val.strip()
    return out


def parse_g96(path):
    sec, cur = {}, None
    with open(path) as fh:
        for line in fh:
            s = line.strip()
            if s in ("TITLE", "POSITION", "VELOCITY", "BOX", "POSITIONRED", "VELOCITYRED"):
                cur = s
                sec[cur] = []
            elif s == "END":
                cur = None
            elif cur:
                sec[cur].append(line.rstrip("\n"))
    pos = np.array([[float(l[24 + 15 * i:24 + 15 * (i + 1)]) for i in range(3)] for l in sec["POSITION"]])
    vel = np.array([[float(l[24 + 15 * i:24 + 15 * (i + 1)]) for i in range(3)] for l in sec.get("VELOCITY", [])])
    if len(vel) == 0:
        vel = np.zeros_like(pos)
    box = [float(x) for x in sec["BOX"][0].split()][:3]
    return pos, vel, box


class GmxGrompp(ProgramBase):
    def __init__(self, sim, cmd, cwd):
        super().__init__(sim, cmd, cwd)
        arg = {cmd[i]: cmd[i + 1] for i in range(2, len(cmd) - 1) if cmd[i].startswith("-")}
        mdp = parse_mdp(arg["-f"] if os.path.isabs(arg["-f"]) else os.path.join(cwd, arg["-f"]))
        conf = arg["-c"] if os.path.isabs(arg["-c"]) else os.path.join(cwd, arg["-c"])
        with open(os.path.join(cwd, arg["-o"]), "w") as fh:
            json.dump({"mdp": mdp, "conf": conf}, fh)
        with open(os.path.join(cwd, "mdout.mdp"), "w") as fh:
            fh.write("; simulated grompp\n")
        self.returncode = 0


class GmxEnergy(ProgramBase):
    def __init__(self, sim, cmd, cwd):
        super().__init__(sim, cmd, cwd)
        edr = cmd[cmd.index("-f") + 1]
        edr = edr if os.path.isabs(edr) else os.path.join(cwd, edr)
        rows = sim.edr.get(os.path.realpath(edr), [])
        with open(os.path.join(cwd, "energy.xvg"), "w") as fh:
            fh.write('# simulated gmx energy\n@    title "GROMACS Energies"\n@ s0 legend "Potential"\n'
                     '@ s1 legend "Kinetic En."\n')
            for i, (ke, pe) in enumerate(rows):
                fh.write(f"{i*0.002:12.6f} {pe:.10f} {ke:.10f}\n")
        self.returncode = 0


class GmxMdrun(TrajProgram):
    def __init__(self, sim, cmd, cwd):
        super().__init__(sim, cmd, cwd)
        tpr = cmd[cmd.index("-s") + 1]
        name = cmd[cmd.index("-deffnm") + 1]
        with open(os.path.join(cwd, tpr)) as fh:
            info = json.load(fh)
        mdp = info["mdp"]
        nsteps, nst, dt = int(mdp["nsteps"]), int(mdp["nstxout"]), float(mdp["dt"])
        sim.inputs.append({"name": name, "nsteps": nsteps, "nstxout": nst, "conf": info["conf"]})
        pos, vel, box = parse_g96(info["conf"])
        self.nframes = nsteps // nst + 1
        endian = sim.scn.get("trr_endian", ">")
        double = bool(sim.scn.get("trr_double", False))
        dtf = dt * nst * sim.scn.get("dt_scale", 1.0)
        data, ends, ener = b"", [], []
        dtype = np.float64 if double else np.float32
        bm = [[box[0], 0, 0], [0, box[1], 0], [0, 0, box[2]]]
        for f in range(self.nframes):
            p = pos + vel * dtf * f
            data += P.trr_frame(f * nst, f * dtf, bm, p, vel, endian, double)
            ends.append(len(data))
            pt = np.array(p, dtype=dtype).astype(np.float64)
            vt = np.array(vel, dtype=dtype).astype(np.float64)
            bt = np.array(box, dtype=dtype).astype(np.float64)
            ke = 0.5 * float(np.sum(vt ** 2)) + 0.001 * f
            pe = -3.0 - 0.01 * f
            self.truth.append({"pos": pt, "vel": vt, "box": np.array([[0.0, b] for b in bt]),
                               "ekin": ke, "vpot": pe})
            ener.append((ke, pe))
        self.ener = ener
        self.traj_file = os.path.join(cwd, f"{name}.trr")
        self.edr_file = os.path.join(cwd, f"{name}.edr")
        self.writers = [P.ChunkWriter(self.traj_file, data, ends)]
        self.plan()
        self.after_write()

    def after_write(self):
        if self.writers and self.writers[0].created:
            if not os.path.exists(self.edr_file):
                open(self.edr_file, "wb").close()
        n = self.frames_on_disk()
        self.sim.edr[os.path.realpath(self.edr_file)] = self.ener[:max(1, n)]


def gmx_factory(sim, cmd, cwd):
    sub = cmd[1] if len(cmd) > 1 else ""
    if sub == "grompp":
        return GmxGrompp(sim, cmd, cwd)
    if sub == "energy":
        return GmxEnergy(sim, cmd, cwd)
    if sub == "mdrun":
        return GmxMdrun(sim, cmd, cwd)
    raise RuntimeError(f"simulated gmx: unknown command {cmd}")
