"""Layer D: file-system effect seam for the main process.

Rebinds, in the namespaces of the repo modules that the *main process* uses for durable state
(repex, formatter, setup, core.core, path), the names `open`, `os` and `shutil` by counting
wrappers.  Effects made while a job body runs (worker processes in reality) pass through.

Two ways to produce "main died just before effect i":
  snapshot: copy the live run directory at the boundary (only what reached the kernel is in the
            copy; Python-buffered data is not) and, for the flush of a written file, torn variants
            content_at_open + written[:j];
  kill:     really die there (optionally after flushing a prefix) with os._exit.
"""
import builtins
from sim.kernel import hash64
import hashlib
import os
import shutil

SKIP_NAMES = ("sim.log", "pattern.txt")


def tree_digest(root):
    """Digest of everything durable that matters (logs and pattern file excluded)."""
    h = hashlib.sha256()
    for dirpath, dirs, files in os.walk(root):
        dirs.sort()
        rel = os.path.relpath(dirpath, root)
        h.update(b"D" + rel.encode())
        for f in sorted(files):
            if f in SKIP_NAMES or f.endswith(".log") or f.startswith("msg-"):
                continue
            h.update(b"F" + f.encode())
            try:
                with builtins.open(os.path.join(dirpath, f), "rb") as fh:
                    h.update(hashlib.sha256(fh.read()).digest())
            except OSError:
                h.update(b"?")
    return h.hexdigest()[:24]


def tree_listing(root):
    """{relative path: content hash} of what tree_digest looks at."""
    out = {}
    for dirpath, dirs, files in os.walk(root):
        dirs.sort()
        rel = os.path.relpath(dirpath, root)
        out[rel + "/"] = "dir"
        for f in sorted(files):
            if f in SKIP_NAMES or f.endswith(".log") or f.startswith("msg-"):
                continue
            try:
                with builtins.open(os.path.join(dirpath, f), "rb") as fh:
                    out[os.path.join(rel, f)] = hashlib.sha256(fh.read()).hexdigest()[:12]
            except OSError:
                out[os.path.join(rel, f)] = "?"
    return out


class _WFile:
    """Wrapper around a file opened for writing by main."""

    def __init__(self, seam, real, path, mode, at_open):
        self._seam, self._real, self._path, self._mode = seam, real, path, mode
        self._at_open = at_open
        self._written = b""
        self._closed = False

    def write(self, data):
        self._seam.effect("write", self._path)
        raw = data.encode(getattr(self._real, "encoding", None) or "utf-8") if isinstance(data, str) else bytes(data)
        self._written += raw
        return self._real.write(data)

    def flush(self):
        self._seam.effect("flush", self._path, wf=self)
        return self._real.flush()

    def close(self):
        if not self._closed:
            self._closed = True
            self._seam.effect("close", self._path, wf=self)
            self._real.close()

    def __enter__(self):
        return self

    def __exit__(self, *exc):
        self.close()
        return False

    def __getattr__(self, name):
        return getattr(self._real, name)

    def __iter__(self):
        return iter(self._real)


class _Shim:
    def __init__(self, real, over):
        self.__dict__["_real"] = real
        self.__dict__["_over"] = over

    def __getattr__(self, name):
        if name in self._over:
            return self._over[name]
        return getattr(self._real, name)


class FsSeam:
    def __init__(self, sim, scratch, mode="snapshot", kill_at=None, arm_steps=None, torn=True,
                 max_states=4000):
        self.sim = sim
        self.scratch = scratch
        self.mode = mode                  # "snapshot" | "kill" | "count"
        self.kill_at = kill_at            # (effect index, torn j or None)
        self.arm_steps = arm_steps        # None = all steps; else set of step ordinals (1-based)
        self.torn = torn
        self.n = 0                        # effect counter (main-process effects only)
        self.states = []                  # metadata of crash states produced
        self.seen = set()
        self.max_states = max_states
        self.rundir = None
        self.kinds = {}
        self.step = 0                     # treat_output ordinal in this incarnation (1-based)
        self.in_step = False

    # ------------------------------------------------------------------ install
    def install(self):
        import infretis.classes.repex as R
        import infretis.classes.formatter as F
        import infretis.setup as SU
        import infretis.core.core as CC
        import infretis.classes.path as P
        self.rundir = os.getcwd()
        seam = self

        def open_(file, mode="r", *a, **kw):
            if seam.passthrough() or not any(c in mode for c in "wax+"):
                return builtins.open(file, mode, *a, **kw)
            path = os.path.abspath(file)
            at_open = b""
            if "a" in mode and os.path.isfile(path):
                with builtins.open(path, "rb") as fh:
                    at_open = fh.read()
            seam.effect("open_" + ("a" if "a" in mode else "w"), path)
            real = builtins.open(file, mode, *a, **kw)
            return _WFile(seam, real, path, mode, at_open)

        def wrap1(kind, fn):
            def inner(path, *a, **kw):
                if not seam.passthrough():
                    seam.effect(kind, os.path.abspath(path))
                return fn(path, *a, **kw)
            return inner

        def wrap2(kind, fn):
            def inner(src, dst, *a, **kw):
                if not seam.passthrough():
                    seam.effect(kind, os.path.abspath(dst))
                return fn(src, dst, *a, **kw)
            return inner

        os_over = {"remove": wrap1("remove", os.remove), "rmdir": wrap1("rmdir", os.rmdir),
                   "makedirs": wrap1("mkdir", os.makedirs), "mkdir": wrap1("mkdir", os.mkdir),
                   "replace": wrap2("replace", os.replace), "rename": wrap2("replace", os.rename),
                   "unlink": wrap1("remove", os.unlink)}
        sh_over = {"move": wrap2("move", shutil.move), "copyfile": wrap2("copy", shutil.copyfile),
                   "copy": wrap2("copy", shutil.copy)}
        for mod in (R, F, SU, CC, P):
            mod.open = open_
            if hasattr(mod, "os"):
                mod.os = _Shim(os, os_over)
            if hasattr(mod, "shutil"):
                mod.shutil = _Shim(shutil, sh_over)

    def passthrough(self):
        return self.sim.in_job or self.mode == "off"

    # ------------------------------------------------------------------ effects
    def armed(self):
        if self.arm_steps is None:
            return True
        if self.step == 0:
            return 0 in self.arm_steps          # start-up of the incarnation (restart reconciliation)
        return self.in_step and self.step in self.arm_steps

    def effect(self, kind, path, wf=None):
        self.n += 1
        i = self.n
        self.kinds[kind] = self.kinds.get(kind, 0) + 1
        rel = os.path.relpath(path, self.rundir) if path.startswith(self.rundir) else path
        if self.mode == "kill":
            if self.kill_at and i == self.kill_at[0]:
                j = self.kill_at[1]
                if j is not None and wf is not None:
                    # the kernel got only a prefix of what was buffered
                    fd = os.open(path, os.O_WRONLY | os.O_CREAT | os.O_TRUNC)
                    os.write(fd, wf._at_open + wf._written[:j])
                    os.close(fd)
                self.sim.k.log(ev="fs_kill", effect=i, kind=kind, path=rel, torn=j)
                self.sim.finish(77)
            return
        if self.mode != "snapshot" or not self.armed() or len(self.states) >= self.max_states:
            return
        self._snapshot(i, kind, rel, None, None)
        if self.torn and wf is not None and kind in ("close", "flush") and wf._written:
            w = wf._written
            # fixed cuts plus two seeded ones: one inside the first field of the record (offsets 2..8,
            # e.g. in the middle of a path number) and one anywhere
            h = hash64(self.sim.k.seed, "torn", i)
            cuts = {1, len(w) // 2, len(w) - 1, 2 + h % 7, 1 + (h >> 8) % max(1, len(w) - 1)}
            for j in sorted(cuts):
                if 0 < j < len(w):
                    self._snapshot(i, kind, rel, j, wf)

    def boundary(self, label):
        """Explicit boundary (e.g. after the last effect of a step)."""
        self.effect("boundary:" + label, self.rundir)

    def _snapshot(self, i, kind, rel, j, wf):
        dest = os.path.join(self.scratch, f"crash-{self.sim.inc}-{i}-{'n' if j is None else j}")
        shutil.copytree(self.rundir, dest, symlinks=True)
        if j is not None:
            target = os.path.join(dest, rel)
            with builtins.open(target, "wb") as fh:
                fh.write(wf._at_open + wf._written[:j])
        dg = tree_digest(dest)
        if dg in self.seen:
            shutil.rmtree(dest, ignore_errors=True)
            return
        self.seen.add(dg)
        self.states.append({"dir": dest, "effect": i, "kind": kind, "path": rel, "torn": j,
                            "step": self.step, "in_step": self.in_step, "digest": dg,
                            "completed": self.sim.completed, "inc": self.sim.inc})
