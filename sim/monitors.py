"""Property monitors for Layer A (scheduler simulation).  Observers only read."""
import copy
import hashlib
import os
import shutil

import numpy as np

from sim.sched_sim import Monitor, StopRun

LD = np.longdouble


def parse_data_file(path):
    """Return list of (pn, length, maxop, frac[list of longdouble], weight[list])."""
    rows = []
    if not os.path.isfile(path):
        return rows
    with open(path) as fh:
        for line in fh:
            if line.startswith("#") or not line.strip():
                continue
            if not line.endswith("\n"):
                rows.append(("TORN", line))
                continue
            sp = line.split()
            ncol = (len(sp) - 3) // 2
            pn = int(sp[0])
            frac = [LD(0) if x == "----" else LD(x) for x in sp[3:3 + ncol]]
            wts = [LD(0) if x == "----" else LD(x) for x in sp[3 + ncol:3 + 2 * ncol]]
            rows.append((pn, int(sp[1]), float(sp[2]), frac, wts))
    return rows


# ======================================================================================
class C03Monitor(Monitor):
    """Busy resources are never shared; busy flags == reference model."""

    def __init__(self):
        self.checks = 0
        self.states = set()

    def _check_locks(self, extra=None, where=""):
        sim, st = self.sim, self.sim.state
        off = st._offset
        jobs = list(sim.inflight.values()) + ([extra] if extra else [])
        busy = sorted(e for j in jobs for e in j["ens"])
        locks = [int(i) - off for i in np.where(st._locks[:-1] == 1)[0]]
        self.checks += 1
        self.states.add((tuple(busy), len(jobs)))
        if int(st._locks[-1]) != 1:
            sim.violate("C03", "ghost_unlocked", f"{where}: ghost column not locked")
        if locks != busy:
            sim.violate("C03", "lock_mismatch",
                        f"{where}: busy flags {locks} != in-flight ensembles {busy}")
        model = sorted((tuple(j["ens"]), tuple(str(p) for p in j["paths"])) for j in jobs)
        got = sorted((tuple(int(e) for e in l[0]), tuple(str(p) for p in l[1])) for l in st.locked)
        if model != got:
            sim.violate("C03", "locked_list_mismatch",
                        f"{where}: locked list {got} != in-flight jobs {model}",
                        site="after_restart" if sim.inc > 0 else "first_incarnation")
        # live path of every busy slot is the job's path
        for j in jobs:
            for e, p in zip(j["ens"], j["paths"]):
                tr = st._trajs[e + off]
                if int(tr.path_number) != int(p):
                    sim.violate("C03", "busy_slot_path_changed",
                                f"{where}: slot {e} holds path {tr.path_number}, job has {p}")

    def on_submit(self, jid, md, info):
        sim, st = self.sim, self.sim.state
        off = st._offset
        others = list(sim.inflight.values())
        busy_ens = set(e for j in others for e in j["ens"])
        busy_paths = set(p for j in others for p in j["paths"])
        if len(set(info["ens"])) != len(info["ens"]) or len(set(info["paths"])) != len(info["paths"]):
            sim.violate("C03", "dup_in_job", f"job {info}")
        for e in info["ens"]:
            if e in busy_ens:
                sim.violate("C03", "ensemble_shared", f"ensemble {e} issued while busy; job {info}")
        for p in info["paths"]:
            if p in busy_paths:
                sim.violate("C03", "path_shared", f"path {p} issued while busy; job {info}")
        if info["pin"] in [j["pin"] for j in others]:
            sim.violate("C03", "pin_shared", f"pin {info['pin']} already in flight")
        if info["w_folder"] in [j["w_folder"] for j in others]:
            sim.violate("C03", "workdir_shared", f"dir {info['w_folder']} already in flight")
        if not info["w_folder"] or not os.path.isdir(info["w_folder"]):
            sim.violate("C03", "workdir_missing", f"dir {info['w_folder']}")
        used = set(x for j in others for x in j["eng"])
        for x in info["eng"]:
            if x in used:
                sim.violate("C03", "engine_shared", f"engine instance {x} already in flight")
        ens_engs = st.config["simulation"]["ensemble_engines"]
        for e in info["ens"]:
            pe = md["picked"][e]
            want = sorted(ens_engs[e + 1])
            if sorted(pe.get("eng_idx", {}).keys()) != want:
                sim.violate("C03", "engine_missing", f"ens {e}: eng_idx {pe.get('eng_idx')} want {want}")
            if pe.get("exe_dir") != info["w_folder"]:
                sim.violate("C03", "exe_dir_mismatch", f"{pe.get('exe_dir')} vs {info['w_folder']}")
            traj = pe["traj"]
            w = traj.weights
            widx = 0 if e == -1 else e
            if w is None or len(w) <= widx or w[widx] == 0:
                sim.violate("C03", "zero_weight_issued",
                            f"path {traj.path_number} weights {w} issued in ensemble {e}")
            if st.state[e + off, e + off] == 0:
                sim.violate("C03", "zero_weight_slot", f"state[{e+off},{e+off}] == 0 at issue")
        if len(info["ens"]) == 2 and sorted(info["ens"]) != [-1, 0]:
            sim.violate("C03", "bad_pair", f"two-ensemble job on {info['ens']}")
        if len(info["ens"]) > 2:
            sim.violate("C03", "bad_pair", f"job on {info['ens']}")
        self._check_locks(extra=info, where=f"submit#{jid}")

    def post_treat(self, md):
        self._check_locks(where=f"treat#{self.sim.completed}")

    def summary(self):
        return {"lock_checks": self.checks, "busy_states": sorted(map(str, self.states))[:50],
                "n_busy_states": len(self.states)}


# ======================================================================================
class C04Monitor(Monitor):
    """Fractional weights: conservation ledger per step and row discipline."""

    TOL = 1e-9

    def __init__(self):
        self.idle_counts = None
        self.rows_seen = 0
        self.row_pns = []
        self.before = None
        self.steps = 0

    def _fracs(self):
        st = self.sim.state
        return {int(pn): np.array(d["frac"], dtype=LD).copy() for pn, d in st.traj_data.items()}

    def on_attach(self, state, md_items):
        self.idle_counts = np.zeros(state.n, dtype=LD)
        rows = parse_data_file(state.data_file)
        self.rows_seen = len(rows)
        self.row_pns = [r[0] for r in rows]
        live = [int(p) for p in state.live_paths()]
        for r in rows:
            if r[0] == "TORN":
                continue
            if r[0] in live:
                self.sim.violate("C04", "row_for_live_path_at_start",
                                 f"path {r[0]} is live but already has a data row")

    def pre_treat(self, md):
        self.before = self._fracs()

    def post_treat(self, md):
        sim, st = self.sim, self.sim.state
        n, off = st.n, st._offset
        after = self._fracs()
        rows = parse_data_file(st.data_file)
        new_rows = rows[self.rows_seen:]
        self.rows_seen = len(rows)
        self.steps += 1
        busy_ens = set(e for j in sim.inflight.values() for e in j["ens"])
        busy_paths = set(p for j in sim.inflight.values() for p in j["paths"])
        idle_cols = [c for c in range(n - 1) if (c - off) not in busy_ens]
        # --- row discipline
        want = sorted(int(p) for p in md["pnum_old"]) if md.get("status") == "ACC" else []
        got = sorted(r[0] for r in new_rows)
        if got != want:
            sim.violate("C04", "rows_mismatch", f"rows written {got}, replaced paths {want}, "
                        f"status {md.get('status')}")
        live = [int(p) for p in st.live_paths()]
        for r in new_rows:
            if r[0] in live:
                sim.violate("C04", "row_for_live_path", f"path {r[0]} written while live")
            if r[0] in self.row_pns:
                sim.violate("C04", "row_twice", f"path {r[0]} written twice")
            self.row_pns.append(r[0])
        # --- ledger
        total = np.zeros(n, dtype=LD)
        for pn, fr in after.items():
            total += fr - self.before.get(pn, np.zeros(n, dtype=LD))
        for r in new_rows:
            pn = r[0]
            full = np.zeros(n, dtype=LD)
            fr = r[3]
            full[:len(fr)] = fr
            total += full - self.before.get(pn, np.zeros(n, dtype=LD))
            if pn in after:
                sim.violate("C04", "archived_still_tracked", f"path {pn} has a row and live data")
        for pn in self.before:
            if pn not in after and pn not in got:
                sim.violate("C04", "weights_dropped", f"path {pn} vanished without a data row")
        for c in range(n):
            expect = 1.0 if c in idle_cols else 0.0
            if abs(float(total[c]) - expect) > self.TOL:
                sim.violate("C04", "column_not_conserved",
                            f"step {self.steps}: column {c} gained {float(total[c])!r}, expected "
                            f"{expect} (idle columns {idle_cols})")
        self.idle_counts[idle_cols] += 1
        # --- per path
        for idx, pn in enumerate(live):
            d = after[pn] - self.before.get(pn, np.zeros(n, dtype=LD))
            if pn in busy_paths:
                if np.any(d != 0):
                    sim.violate("C04", "busy_path_credited", f"path {pn} busy, gained {d}")
                continue
            wrow = st.state[idx]
            for c in range(n):
                if d[c] != 0 and (wrow[c] == 0 or c not in idle_cols):
                    sim.violate("C04", "credit_where_zero_weight",
                                f"path {pn} gained {float(d[c])} in column {c} with weight "
                                f"{wrow[c]} (idle {idle_cols})")
                if d[c] < 0:
                    sim.violate("C04", "negative_credit", f"path {pn} col {c} {float(d[c])}")

    def summary(self):
        return {"idle_counts": [str(x) for x in (self.idle_counts if self.idle_counts is not None else [])],
                "steps": self.steps}


# ======================================================================================
class C05Monitor(Monitor):
    """Progress: P finite and normalised, diagonal non-zero, fresh numbers, restart loads."""

    def __init__(self, load_every=None):
        self.used = set()
        self.load_every = load_every
        self.loads = 0
        self.maxswaps = 0

    def on_attach(self, state, md_items):
        self.used = set(int(p) for p in state.live_paths())
        self.traj_num0 = int(state.config["current"]["traj_num"])

    def on_prob(self, mat, locks, out):
        sim = self.sim
        idle = int(np.sum(np.asarray(locks) == 0))
        if not np.all(np.isfinite(out)):
            sim.violate("C05", "prob_not_finite", f"P has nan/inf: {out}")
        if idle and abs(float(np.sum(out)) - idle) > 1e-6:
            sim.violate("C05", "prob_sum", f"sum(P)={float(np.sum(out))} idle={idle}")

    def post_prep(self, md):
        # a job was drawn; the pick consumed a finite distribution
        st = self.sim.state
        for e in md["picked"]:
            pn = md["picked"][e]["traj"].path_number
            if pn is None:
                self.sim.violate("C05", "unnumbered_path_issued", f"ens {e}")

    def post_treat(self, md):
        sim, st = self.sim, self.sim.state
        n = st.n
        self.maxswaps = max(self.maxswaps, sim.swaps_in_treat)
        busy_ens = set(e for j in sim.inflight.values() for e in j["ens"])
        for i in range(n - 1):
            if (i - st._offset) in busy_ens:
                continue
            if st.state[i, i] == 0:
                sim.violate("C05", "zero_diagonal", f"idle slot {i} holds path "
                            f"{st._trajs[i].path_number} with zero weight; state=\n{st.state}")
        live = [int(p) for p in st.live_paths()]
        if len(set(live)) != len(live):
            sim.violate("C05", "live_not_distinct", f"{live}")
        tn = int(st.config["current"]["traj_num"])
        new = [p for p in live if p not in self.used]
        for p in new:
            if p >= tn:
                sim.violate("C05", "traj_num_not_advanced", f"path {p} >= traj_num {tn}")
            if p < self.traj_num0:
                sim.violate("C05", "path_number_reused", f"new live path {p} < initial traj_num "
                            f"{self.traj_num0}")
        self.used.update(live)
        if self.used and tn <= max(self.used):
            sim.violate("C05", "traj_num_not_above_used", f"traj_num {tn} max used {max(self.used)}")
        if self.load_every and sim.k.flip("loadcheck", self.load_every):
            self._load_check()

    def _load_check(self):
        """Fork a loader on a snapshot of the run directory; it must initialise."""
        sim, st = self.sim, self.sim.state
        self.loads += 1
        sim.k.probe("restart_load_checked")
        snap = os.path.join(os.path.dirname(os.getcwd()), f"snap-{sim.inc}-{sim.completed}")
        shutil.copytree(os.getcwd(), snap, symlinks=True)
        msgfile = snap + ".msg"
        pid = os.fork()
        if pid == 0:
            code = 0
            try:
                os.chdir(snap)
                code = _loader_main(st.workers, msgfile)
            except BaseException as exc:  # noqa
                with open(msgfile, "w") as fh:
                    import traceback
                    fh.write(f"{type(exc).__name__}: {exc}\n{traceback.format_exc()[-1200:]}")
                code = 3
            os._exit(code)
        _, status = os.waitpid(pid, 0)
        code = os.waitstatus_to_exitcode(status)
        msg = ""
        if os.path.isfile(msgfile):
            with open(msgfile) as fh:
                msg = fh.read()
            os.remove(msgfile)
        shutil.rmtree(snap, ignore_errors=True)
        if code != 0:
            sim.violate("C05", "restart_does_not_load",
                        f"restart.toml written at step {sim.completed} (inc {sim.inc}) failed: {msg[:400]}")

    def summary(self):
        return {"loads": self.loads, "maxswaps": self.maxswaps}


def _loader_main(workers, msgfile):
    """Runs in a forked grandchild: restart from ./restart.toml and do the initiation picks."""
    import tomli
    import tomli_w
    import infretis.setup as SU
    import infretis.classes.repex as R
    import infretis.scheduler as S
    with open("restart.toml", "rb") as fh:
        cfg = tomli.load(fh)
    cfg["simulation"]["steps"] = int(cfg["current"]["cstep"]) + workers + 2
    with open("restart.toml", "wb") as fh:
        tomli_w.dump(cfg, fh)
    R.REPEX_state.traj_data = {}
    R.REPEX_state.ensembles = {}
    R.REPEX_state.engine_occ = {}
    config = SU.setup_config("restart.toml")
    if config is None:
        with open(msgfile, "w") as fh:
            fh.write("setup_config returned None")
        return 2
    md_items, state = SU.setup_internal(config)
    n = 0
    while state.initiate():
        md = copy.deepcopy(md_items)
        state.prep_md_items(md)
        n += 1
    if n != workers:
        with open(msgfile, "w") as fh:
            fh.write(f"initiation issued {n} jobs for {workers} workers")
        return 4
    return 0


# ======================================================================================
class C17Monitor(Monitor):
    """Step arithmetic at the scheduler level."""

    def __init__(self):
        self.start_cstep = None
        self.tsteps = None
        self.none_polls = 0

    def on_attach(self, state, md_items):
        self.start_cstep = int(state.cstep)
        self.tsteps = int(state.tsteps)

    def on_as_completed_none(self):
        self.none_polls += 1
        sim = self.sim
        sim.violate("C17", "loop_without_job",
                    f"main loop polled for a result with no job in flight at cstep "
                    f"{int(sim.state.cstep)} (target {self.tsteps}, started at {self.start_cstep})",
                    site="remaining_lt_workers")

    def post_treat(self, md):
        sim, st = self.sim, self.sim.state
        if int(st.cstep) != self.start_cstep + sim.completed:
            sim.violate("C17", "cstep_mismatch", f"cstep {int(st.cstep)} after {sim.completed} "
                        f"completed moves from {self.start_cstep}")
        if int(st.cstep) > self.tsteps:
            sim.violate("C17", "too_many_moves", f"cstep {int(st.cstep)} > steps {self.tsteps}")
        if sim.futs is not None:
            handed = [f for f in sim.futs if f.consumed]
            if handed:
                sim.violate("C17", "result_consumed_twice", f"futures {[f.jid for f in handed]}")

    def on_stop(self):
        sim, st = self.sim, self.sim.state
        if sim.inflight or sim.futs:
            sim.violate("C17", "jobs_left_in_flight",
                        f"runner stopped with {len(sim.futs)} unconsumed job(s) "
                        f"{sorted(j['ens'] for j in sim.inflight.values())}; cstep {int(st.cstep)}, "
                        f"steps {self.tsteps}, started at {self.start_cstep}",
                        site="remaining_lt_workers" if self.tsteps - self.start_cstep < st.workers
                        else "normal")
        want = max(0, self.tsteps - self.start_cstep)
        if sim.completed != want:
            sim.violate("C17", "wrong_number_of_moves",
                        f"completed {sim.completed} moves, requested {want} "
                        f"(steps {self.tsteps}, started at {self.start_cstep})")

    def summary(self):
        return {"start": self.start_cstep, "tsteps": self.tsteps, "none_polls": self.none_polls}


# ======================================================================================
def stream_id(gen):
    ss = gen.bit_generator._seed_seq
    st = gen.bit_generator.state
    return {"entropy": int(ss.entropy) if ss.entropy is not None else None,
            "key": [int(x) for x in ss.spawn_key],
            "state": hashlib.sha256(repr(st).encode()).hexdigest()[:20]}


def global_rng_digest():
    import random as pyrandom
    h = hashlib.sha256()
    st = np.random.get_state()
    h.update(np.asarray(st[1]).tobytes())
    h.update(repr(st[2:]).encode())
    h.update(repr(pyrandom.getstate()).encode())
    return h.hexdigest()[:20]


class C07Monitor(Monitor):
    """Stream ledger: every job's move/engine streams, recorded at the runner seam."""

    def __init__(self):
        self.reissue = False
        self.njobs = 0
        self.g0 = None

    def on_attach(self, state, md_items):
        self.seed = state.config["simulation"]["seed"]
        self.restart_locked = len(state.locked0)
        self.restarted = "restarted_from" in state.config["current"]

    def pre_prep(self, md):
        self.reissue = bool(self.sim.state.locked0)

    def on_submit(self, jid, md, info):
        sim, st = self.sim, self.sim.state
        self.njobs += 1
        sched = stream_id(st.rgen)
        streams = []
        objs = [st.rgen]
        for e in md["picked"]:
            pe = md["picked"][e]
            mv, en = pe["ens"]["rgen"], pe.get("rgen-eng")
            if en is None:
                sim.violate("C07", "no_engine_stream", f"job {jid} ens {e} has no engine stream")
                continue
            for label, g in (("move", mv), ("engine", en)):
                sid = stream_id(g)
                sid["label"] = label
                sid["ens"] = int(e)
                streams.append(sid)
                if any(g is o for o in objs):
                    sim.violate("C07", "stream_object_shared",
                                f"job {jid} ens {e}: {label} stream is the same object as another stream")
                objs.append(g)
                if sid["state"] == sched["state"] or sid["key"] == []:
                    sim.violate("C07", "shares_scheduler_stream",
                                f"job {jid} ens {e}: {label} stream {sid} vs scheduler {sched}")
                if sid["entropy"] != self.seed:
                    sim.violate("C07", "entropy_not_seed",
                                f"job {jid} ens {e}: {label} stream entropy {sid['entropy']} but "
                                f"simulation.seed is {self.seed}",
                                site="after_restart" if self.restarted else "first_incarnation")
                fresh = np.random.default_rng(np.random.SeedSequence(
                    entropy=sid["entropy"], spawn_key=tuple(sid["key"])))
                if fresh.bit_generator.state != g.bit_generator.state:
                    sim.violate("C07", "stream_not_fresh",
                                f"job {jid} ens {e}: {label} stream state differs from a fresh "
                                f"generator of its seed sequence (already used or shared)")
        sim.k.log(ev="streams", jid=jid, reissue=self.reissue, ens=info["ens"], paths=info["paths"],
                  streams=streams, restarted=self.restarted, restart_locked=self.restart_locked,
                  workers=int(st.workers))

    def pre_job(self, jid, job):
        self.g0 = global_rng_digest()

    def post_job(self, jid, job, out):
        g1 = global_rng_digest()
        if g1 != self.g0:
            self.sim.violate("C07", "global_rng_used",
                             f"job {jid}: the process-global numpy/python RNG state changed during "
                             f"the move", site=self.sim.scn.get("engine"))

    def summary(self):
        return {"jobs": self.njobs}
