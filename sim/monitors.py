"""Property monitors for Layer A (scheduler simulation).  Observers only read."""
import copy
import hashlib
import os
import shutil

import numpy as np

from sim.sched_sim import Monitor, StopRun

LD = np.longdouble


def parse_data_file(path):
    """Return list of (pn, length, maxop, frac[list of longdouble], weight[list])."""
    rows = []
    if not os.path.isfile(path):
        return rows
    with open(path) as fh:
        for line in fh:
            if line.startswith("#") or not line.strip():
                continue
            if not line.endswith("\n"):
                rows.append(("TORN", line))
                continue
            sp = line.split()
            ncol = (len(sp) - 3) // 2
            pn = int(sp[0])
            frac = [LD(0) if x == "----" else LD(x) for x in sp[3:3 + ncol]]
            wts = [LD(0) if x == "----" else LD(x) for x in sp[3 + ncol:3 + 2 * ncol]]
            rows.append((pn, int(sp[1]), float(sp[2]), frac, wts))
    return rows


# ======================================================================================
class C03Monitor(Monitor):
    """Busy resources are never shared; busy flags == reference model."""

    def __init__(self):
        self.checks = 0
        self.states = set()

    def _check_locks(self, extra=None, where=""):
        sim, st = self.sim, self.sim.state
        off = st._offset
        jobs = list(sim.inflight.values()) + ([extra] if extra else [])
        busy = sorted(e for j in jobs for e in j["ens"])
        locks = [int(i) - off for i in np.where(st._locks[:-1] == 1)[0]]
        self.checks += 1
        self.states.add((tuple(busy), len(jobs)))
        if int(st._locks[-1]) != 1:
            sim.violate("C03", "ghost_unlocked", f"{where}: ghost column not locked")
        if locks != busy:
            sim.violate("C03", "lock_mismatch",
                        f"{where}: busy flags {locks} != in-flight ensembles {busy}")
        model = sorted((tuple(j["ens"]), tuple(str(p) for p in j["paths"])) for j in jobs)
        got = sorted((tuple(int(e) for e in l[0]), tuple(str(p) for p in l[1])) for l in st.locked)
        if model != got:
            sim.violate("C03", "locked_list_mismatch",
                        f"{where}: locked list {got} != in-flight jobs {model}",
                        site="after_restart" if sim.inc > 0 else "first_incarnation")
        # live path of every busy slot is the job's path
        for j in jobs:
            for e, p in zip(j["ens"], j["paths"]):
                tr = st._trajs[e + off]
                if int(tr.path_number) != int(p):
                    sim.violate("C03", "busy_slot_path_changed",
                                f"{where}: slot {e} holds path {tr.path_number}, job has {p}")

    def on_submit(self, jid, md, info):
        sim, st = self.sim, self.sim.state
        off = st._offset
        others = list(sim.inflight.values())
        busy_ens = set(e for j in others for e in j["ens"])
        busy_paths = set(p for j in others for p in j["paths"])
        if len(set(info["ens"])) != len(info["ens"]) or len(set(info["paths"])) != len(info["paths"]):
            sim.violate("C03", "dup_in_job", f"job {info}")
        for e in info["ens"]:
            if e in busy_ens:
                sim.violate("C03", "ensemble_shared", f"ensemble {e} issued while busy; job {info}")
        for p in info["paths"]:
            if p in busy_paths:
                sim.violate("C03", "path_shared", f"path {p} issued while busy; job {info}")
        if info["pin"] in [j["pin"] for j in others]:
            sim.violate("C03", "pin_shared", f"pin {info['pin']} already in flight")
        if info["w_folder"] in [j["w_folder"] for j in others]:
            sim.violate("C03", "workdir_shared", f"dir {info['w_folder']} already in flight")
        if not info["w_folder"] or not os.path.isdir(info["w_folder"]):
            sim.violate("C03", "workdir_missing", f"dir {info['w_folder']}")
        used = set(x for j in others for x in j["eng"])
        for x in info["eng"]:
            if x in used:
                sim.violate("C03", "engine_shared", f"engine instance {x} already in flight")
        ens_engs = st.config["simulation"]["ensemble_engines"]
        for e in info["ens"]:
            pe = md["picked"][e]
            want = sorted(ens_engs[e + 1])
            if sorted(pe.get("eng_idx", {}).keys()) != want:
                sim.violate("C03", "engine_missing", f"ens {e}: eng_idx {pe.get('eng_idx')} want {want}")
            if pe.get("exe_dir") != info["w_folder"]:
                sim.violate("C03", "exe_dir_mismatch", f"{pe.get('exe_dir')} vs {info['w_folder']}")
            traj = pe["traj"]
            w = traj.weights
            widx = 0 if e == -1 else e
            if w is None or len(w) <= widx or w[widx] == 0:
                sim.violate("C03", "zero_weight_issued",
                            f"path {traj.path_number} weights {w} issued in ensemble {e}")
            if st.state[e + off, e + off] == 0:
                sim.violate("C03", "zero_weight_slot", f"state[{e+off},{e+off}] == 0 at issue")
        if len(info["ens"]) == 2 and sorted(info["ens"]) != [-1, 0]:
            sim.violate("C03", "bad_pair", f"two-ensemble job on {info['ens']}")
        if len(info["ens"]) > 2:
            sim.violate("C03", "bad_pair", f"job on {info['ens']}")
        self._check_locks(extra=info, where=f"submit#{jid}")

    def post_treat(self, md):
        self._check_locks(where=f"treat#{self.sim.completed}")

    def summary(self):
        return {"lock_checks": self.checks, "busy_states": sorted(map(str, self.states))[:50],
                "n_busy_states": len(self.states)}


# ======================================================================================
class C04Monitor(Monitor):
    """Fractional weights: conservation ledger per step and row discipline."""

    TOL = 1e-9

    def __init__(self):
        self.idle_counts = None
        self.rows_seen = 0
        self.row_pns = []
        self.before = None
        self.steps = 0

    def _fracs(self):
        st = self.sim.state
        return {int(pn): np.array(d["frac"], dtype=LD).copy() for pn, d in st.traj_data.items()}

    def on_attach(self, state, md_items):
        self.idle_counts = np.zeros(state.n, dtype=LD)
        rows = parse_data_file(state.data_file)
        self.rows_seen = len(rows)
        self.row_pns = [r[0] for r in rows]
        live = [int(p) for p in state.live_paths()]
        for r in rows:
            if r[0] == "TORN":
                continue
            if r[0] in live:
                self.sim.violate("C04", "row_for_live_path_at_start",
                                 f"path {r[0]} is live but already has a data row")

    def pre_treat(self, md):
        self.before = self._fracs()

    def post_treat(self, md):
        sim, st = self.sim, self.sim.state
        n, off = st.n, st._offset
        after = self._fracs()
        rows = parse_data_file(st.data_file)
        new_rows = rows[self.rows_seen:]
        self.rows_seen = len(rows)
        self.steps += 1
        busy_ens = set(e for j in sim.inflight.values() for e in j["ens"])
        busy_paths = set(p for j in sim.inflight.values() for p in j["paths"])
        idle_cols = [c for c in range(n - 1) if (c - off) not in busy_ens]
        # --- row discipline
        want = sorted(int(p) for p in md["pnum_old"]) if md.get("status") == "ACC" else []
        got = sorted(r[0] for r in new_rows)
        if got != want:
            sim.violate("C04", "rows_mismatch", f"rows written {got}, replaced paths {want}, "
                        f"status {md.get('status')}")
        live = [int(p) for p in st.live_paths()]
        for r in new_rows:
            if r[0] in live:
                sim.violate("C04", "row_for_live_path", f"path {r[0]} written while live")
            if r[0] in self.row_pns:
                sim.violate("C04", "row_twice", f"path {r[0]} written twice")
            self.row_pns.append(r[0])
        # --- ledger
        total = np.zeros(n, dtype=LD)
        for pn, fr in after.items():
            total += fr - self.before.get(pn, np.zeros(n, dtype=LD))
        for r in new_rows:
            pn = r[0]
            full = np.zeros(n, dtype=LD)
            fr = r[3]
            full[:len(fr)] = fr
            total += full - self.before.get(pn, np.zeros(n, dtype=LD))
            if pn in after:
                sim.violate("C04", "archived_still_tracked", f"path {pn} has a row and live data")
        for pn in self.before:
            if pn not in after and pn not in got:
                sim.violate("C04", "weights_dropped", f"path {pn} vanished without a data row")
        for c in range(n):
            expect = 1.0 if c in idle_cols else 0.0
            if abs(float(total[c]) - expect) > self.TOL:
                sim.violate("C04", "column_not_conserved",
                            f"step {self.steps}: column {c} gained {float(total[c])!r}, expected "
                            f"{expect} (idle columns {idle_cols})")
        self.idle_counts[idle_cols] += 1
        # --- per path
        for idx, pn in enumerate(live):
            d = after[pn] - self.before.get(pn, np.zeros(n, dtype=LD))
            if pn in busy_paths:
                if np.any(d != 0):
                    sim.violate("C04", "busy_path_credited", f"path {pn} busy, gained {d}")
                continue
            wrow = st.state[idx]
            for c in range(n):
                if d[c] != 0 and (wrow[c] == 0 or c not in idle_cols):
                    sim.violate("C04", "credit_where_zero_weight",
                                f"path {pn} gained {float(d[c])} in column {c} with weight "
                                f"{wrow[c]} (idle {idle_cols})")
                if d[c] < 0:
                    sim.violate("C04", "negative_credit", f"path {pn} col {c} {float(d[c])}")

    def summary(self):
        return {"idle_counts": [str(x) for x in (self.idle_counts if self.idle_counts is not None else [])],
                "steps": self.steps}


# ======================================================================================
class C05Monitor(Monitor):
    """Progress: P finite and normalised, diagonal non-zero, fresh numbers, restart loads."""

    def __init__(self, load_every=None):
        self.used = set()
        self.load_every = load_every
        self.loads = 0
        self.maxswaps = 0

    def on_attach(self, state, md_items):
        self.used = set(int(p) for p in state.live_paths())
        self.traj_num0 = int(state.config["current"]["traj_num"])

    def on_prob(self, mat, locks, out):
        sim = self.sim
        idle = int(np.sum(np.asarray(locks) == 0))
        if not np.all(np.isfinite(out)):
            sim.violate("C05", "prob_not_finite", f"P has nan/inf: {out}")
        if idle and abs(float(np.sum(out)) - idle) > 1e-6:
            sim.violate("C05", "prob_sum", f"sum(P)={float(np.sum(out))} idle={idle}")

    def post_prep(self, md):
        # a job was drawn; the pick consumed a finite distribution
        st = self.sim.state
        for e in md["picked"]:
            pn = md["picked"][e]["traj"].path_number
            if pn is None:
                self.sim.violate("C05", "unnumbered_path_issued", f"ens {e}")

    def post_treat(self, md):
        sim, st = self.sim, self.sim.state
        n = st.n
        self.maxswaps = max(self.maxswaps, sim.swaps_in_treat)
        busy_ens = set(e for j in sim.inflight.values() for e in j["ens"])
        for i in range(n - 1):
            if (i - st._offset) in busy_ens:
                continue
            if st.state[i, i] == 0:
                sim.violate("C05", "zero_diagonal", f"idle slot {i} holds path "
                            f"{st._trajs[i].path_number} with zero weight; state=\n{st.state}")
        live = [int(p) for p in st.live_paths()]
        if len(set(live)) != len(live):
            sim.violate("C05", "live_not_distinct", f"{live}")
        tn = int(st.config["current"]["traj_num"])
        new = [p for p in live if p not in self.used]
        for p in new:
            if p >= tn:
                sim.violate("C05", "traj_num_not_advanced", f"path {p} >= traj_num {tn}")
            if p < self.traj_num0:
                sim.violate("C05", "path_number_reused", f"new live path {p} < initial traj_num "
                            f"{self.traj_num0}")
        self.used.update(live)
        if self.used and tn <= max(self.used):
            sim.violate("C05", "traj_num_not_above_used", f"traj_num {tn} max used {max(self.used)}")
        if self.load_every and sim.k.flip("loadcheck", self.load_every):
            self._load_check()

    def _load_check(self):
        """Fork a loader on a snapshot of the run directory; it must initialise."""
        sim, st = self.sim, self.sim.state
        self.loads += 1
        sim.k.probe("restart_load_checked")
        snap = os.path.join(os.path.dirname(os.getcwd()), f"snap-{sim.inc}-{sim.completed}")
        shutil.copytree(os.getcwd(), snap, symlinks=True)
        msgfile = snap + ".msg"
        pid = os.fork()
        if pid == 0:
            code = 0
            try:
                from sim.common import die_with_parent
                die_with_parent()
                os.chdir(snap)
                code = _loader_main(st.workers, msgfile)
            except BaseException as exc:  # noqa
                with open(msgfile, "w") as fh:
                    import traceback
                    fh.write(f"{type(exc).__name__}: {exc}\n{traceback.format_exc()[-1200:]}")
                code = 3
            os._exit(code)
        _, status = os.waitpid(pid, 0)
        code = os.waitstatus_to_exitcode(status)
        msg = ""
        if os.path.isfile(msgfile):
            with open(msgfile) as fh:
                msg = fh.read()
            os.remove(msgfile)
        shutil.rmtree(snap, ignore_errors=True)
        if code != 0:
            sim.violate("C05", "restart_does_not_load",
                        f"restart.toml written at step {sim.completed} (inc {sim.inc}) failed: {msg[:400]}")

    def summary(self):
        return {"loads": self.loads, "maxswaps": self.maxswaps}


def _loader_main(workers, msgfile):
    """Runs in a forked grandchild: restart from ./restart.toml and do the initiation picks."""
    import tomli
    import tomli_w
    import infretis.setup as SU
    import infretis.classes.repex as R
    import infretis.scheduler as S
    with open("restart.toml", "rb") as fh:
        cfg = tomli.load(fh)
    cfg["simulation"]["steps"] = int(cfg["current"]["cstep"]) + workers + 2
    with open("restart.toml", "wb") as fh:
        tomli_w.dump(cfg, fh)
    R.REPEX_state.traj_data = {}
    R.REPEX_state.ensembles = {}
    R.REPEX_state.engine_occ = {}
    config = SU.setup_config("restart.toml")
    if config is None:
        with open(msgfile, "w") as fh:
            fh.write("setup_config returned None")
        return 2
    md_items, state = SU.setup_internal(config)
    n = 0
    while state.initiate():
        md = copy.deepcopy(md_items)
        state.prep_md_items(md)
        n += 1
    if n != workers:
        with open(msgfile, "w") as fh:
            fh.write(f"initiation issued {n} jobs for {workers} workers")
        return 4
    return 0


# ======================================================================================
class C17Monitor(Monitor):
    """Step arithmetic at the scheduler level."""

    def __init__(self):
        self.start_cstep = None
        self.tsteps = None
        self.none_polls = 0

    def on_attach(self, state, md_items):
        self.start_cstep = int(state.cstep)
        self.tsteps = int(state.tsteps)

    def on_as_completed_none(self):
        self.none_polls += 1
        sim = self.sim
        sim.violate("C17", "loop_without_job",
                    f"main loop polled for a result with no job in flight at cstep "
                    f"{int(sim.state.cstep)} (target {self.tsteps}, started at {self.start_cstep})",
                    site="remaining_lt_workers")

    def post_treat(self, md):
        sim, st = self.sim, self.sim.state
        if int(st.cstep) != self.start_cstep + sim.completed:
            sim.violate("C17", "cstep_mismatch", f"cstep {int(st.cstep)} after {sim.completed} "
                        f"completed moves from {self.start_cstep}")
        if int(st.cstep) > self.tsteps:
            sim.violate("C17", "too_many_moves", f"cstep {int(st.cstep)} > steps {self.tsteps}")
        if sim.futs is not None:
            handed = [f for f in sim.futs if f.consumed]
            if handed:
                sim.violate("C17", "result_consumed_twice", f"futures {[f.jid for f in handed]}")

    def on_stop(self):
        sim, st = self.sim, self.sim.state
        if sim.inflight or sim.futs:
            sim.violate("C17", "jobs_left_in_flight",
                        f"runner stopped with {len(sim.futs)} unconsumed job(s) "
                        f"{sorted(j['ens'] for j in sim.inflight.values())}; cstep {int(st.cstep)}, "
                        f"steps {self.tsteps}, started at {self.start_cstep}",
                        site="remaining_lt_workers" if self.tsteps - self.start_cstep < st.workers
                        else "normal")
        want = max(0, self.tsteps - self.start_cstep)
        if sim.completed != want:
            sim.violate("C17", "wrong_number_of_moves",
                        f"completed {sim.completed} moves, requested {want} "
                        f"(steps {self.tsteps}, started at {self.start_cstep})")

    def summary(self):
        return {"start": self.start_cstep, "tsteps": self.tsteps, "none_polls": self.none_polls}


# ======================================================================================
def stream_id(gen):
    ss = gen.bit_generator._seed_seq
    st = gen.bit_generator.state
    return {"entropy": int(ss.entropy) if ss.entropy is not None else None,
            "key": [int(x) for x in ss.spawn_key],
            "state": hashlib.sha256(repr(st).encode()).hexdigest()[:20]}


def global_rng_digest():
    import random as pyrandom
    h = hashlib.sha256()
    st = np.random.get_state()
    h.update(np.asarray(st[1]).tobytes())
    h.update(repr(st[2:]).encode())
    h.update(repr(pyrandom.getstate()).encode())
    return h.hexdigest()[:20]


class C07Monitor(Monitor):
    """Stream ledger: every job's move/engine streams, recorded at the runner seam."""

    def __init__(self):
        self.reissue = False
        self.njobs = 0
        self.g0 = None

    def on_attach(self, state, md_items):
        self.seed = state.config["simulation"]["seed"]
        self.restart_locked = len(state.locked0)
        self.restarted = "restarted_from" in state.config["current"]
        self.c0 = int(state.cstep)

    def pre_prep(self, md):
        self.reissue = bool(self.sim.state.locked0)

    def on_submit(self, jid, md, info):
        sim, st = self.sim, self.sim.state
        self.njobs += 1
        sched = stream_id(st.rgen)
        streams = []
        objs = [st.rgen]
        for e in md["picked"]:
            pe = md["picked"][e]
            mv, en = pe["ens"]["rgen"], pe.get("rgen-eng")
            if en is None:
                sim.violate("C07", "no_engine_stream", f"job {jid} ens {e} has no engine stream")
                continue
            for label, g in (("move", mv), ("engine", en)):
                sid = stream_id(g)
                sid["label"] = label
                sid["ens"] = int(e)
                streams.append(sid)
                if any(g is o for o in objs):
                    sim.violate("C07", "stream_object_shared",
                                f"job {jid} ens {e}: {label} stream is the same object as another stream")
                objs.append(g)
                if sid["state"] == sched["state"] or sid["key"] == []:
                    sim.violate("C07", "shares_scheduler_stream",
                                f"job {jid} ens {e}: {label} stream {sid} vs scheduler {sched}")
                if sid["entropy"] != self.seed:
                    sim.violate("C07", "entropy_not_seed",
                                f"job {jid} ens {e}: {label} stream entropy {sid['entropy']} but "
                                f"simulation.seed is {self.seed}",
                                site="after_restart" if self.restarted else "first_incarnation")
                fresh = np.random.default_rng(np.random.SeedSequence(
                    entropy=sid["entropy"], spawn_key=tuple(sid["key"])))
                if fresh.bit_generator.state != g.bit_generator.state:
                    sim.violate("C07", "stream_not_fresh",
                                f"job {jid} ens {e}: {label} stream state differs from a fresh "
                                f"generator of its seed sequence (already used or shared)")
        sim.k.log(ev="streams", jid=jid, reissue=self.reissue, ens=info["ens"], paths=info["paths"],
                  streams=streams, restarted=self.restarted, restart_locked=self.restart_locked,
                  workers=int(st.workers), c0=self.c0)

    @staticmethod
    def _engine_classes():
        try:
            from infretis.core import tis
            return {type(e) for lst in tis.ENGINES.values() for e in lst if hasattr(type(e), "used_streams")}
        except Exception:       # noqa
            return set()

    def pre_job(self, jid, job):
        self.g0 = global_rng_digest()
        for cls in self._engine_classes():
            del cls.used_streams[:]

    def post_job(self, jid, job, out):
        # every propagation of this job drew from one of the engine streams handed to this job
        allowed = set()
        for e in job["picked"]:
            g = job["picked"][e].get("rgen-eng")
            if g is not None:
                sid = stream_id(g)
                allowed.add((sid["entropy"], tuple(sid["key"])))
        for cls in self._engine_classes():
            for ent, key in cls.used_streams:
                if (int(ent) if ent is not None else None, tuple(key)) not in allowed:
                    self.sim.violate("C07", "engine_drew_from_foreign_stream",
                                     f"job {jid} (ens {list(job['picked'])}): an engine propagated with the "
                                     f"stream entropy={ent} key={list(key)}, the job's engine streams are "
                                     f"{sorted(allowed)}", site=self.sim.scn.get("engine"))
                    break
            self.sim.k.probe("engine_stream_use_checked")
            del cls.used_streams[:]
        g1 = global_rng_digest()
        if g1 != self.g0:
            self.sim.violate("C07", "global_rng_used",
                             f"job {jid}: the process-global numpy/python RNG state changed during "
                             f"the move", site=self.sim.scn.get("engine"))

    def summary(self):
        return {"jobs": self.njobs}


# ======================================================================================
def _file_hash(path):
    h = hashlib.sha256()
    try:
        with open(path, "rb") as fh:
            h.update(fh.read())
    except OSError:
        return None
    return h.hexdigest()[:16]


def _path_snapshot(path):
    return {
        "orders": [tuple(float(x) for x in pp.order) for pp in path.phasepoints],
        "configs": [tuple(pp.config) for pp in path.phasepoints],
        "vel_rev": [bool(pp.vel_rev) for pp in path.phasepoints],
        "number": path.path_number,
        "files": {f: _file_hash(f) for f in sorted(path.adress)},
        "generated": path.generated,
    }


class C09Monitor(Monitor):
    """Per-job monitor: membership of accepted paths, immutability on rejection and a
    bit-exact reference model of the shooting move on the lattice engine."""

    def __init__(self, model=True):
        self.model = model
        self.pre = {}
        self.n_model = 0
        self.n_acc = 0

    def on_attach(self, state, md_items):
        self.maxlength = state.config["simulation"]["tis_set"]["maxlength"]
        self.wall = None
        try:
            self.wall = int(state.config["engine"].get("wall", -3))
        except Exception:
            pass

    # ------------------------------------------------------------------ before the job
    def pre_job(self, jid, job):
        pre = {}
        for e, pe in job["picked"].items():
            old = pe["traj"]
            pre[e] = {
                "old_obj": old,
                "snap": _path_snapshot(old),
                "rg": copy.deepcopy(pe["ens"]["rgen"]),
                "eg": copy.deepcopy(pe["rgen-eng"]),
                "interfaces": tuple(pe["ens"]["interfaces"]),
                "move": pe["ens"]["mc_move"],
                "start_cond": pe["ens"]["start_cond"],
                "tis": dict(pe["ens"]["tis_set"]),
                "old_move": old.get_move(),
            }
        self.pre = pre

    # ------------------------------------------------------------------ after the job
    def post_job(self, jid, job, out):
        sim = self.sim
        status = out.get("status")
        picked = out["picked"]
        two = len(picked) == 2
        for e, pe in picked.items():
            pre = self.pre[e]
            new = pe["traj"]
            replaced = new is not pre["old_obj"]
            if (status == "ACC") != replaced:
                sim.violate("C09", "replace_status_mismatch",
                            f"job {jid} ens {e}: status {status} but path replaced={replaced}")
            if not replaced:
                snap = _path_snapshot(new)
                for key in ("orders", "configs", "vel_rev", "number"):
                    if snap[key] != pre["snap"][key]:
                        sim.violate("C09", "old_path_changed_on_reject",
                                    f"job {jid} ens {e} status {status}: old path {key} changed")
                if snap["files"] != pre["snap"]["files"]:
                    sim.violate("C09", "old_files_changed_on_reject",
                                f"job {jid} ens {e} status {status}: files of the old path changed")
                continue
            # ---- accepted: membership
            self.n_acc += 1
            self._membership(jid, e, pre, new, two)
        if not two:
            e = next(iter(picked))
            pre = self.pre[e]
            gen = out["generated"][0] if out.get("generated") else None
            if pre["move"] == "sh" and gen and gen[0] == "sh":
                idx = int(gen[2])
                lold = len(pre["snap"]["orders"])
                if not 1 <= idx <= lold - 2:
                    sim.violate("C09", "shooting_point_is_end_point",
                                f"job {jid} ens {e}: shooting index {idx} for old length {lold}")
            if self.model and pre["move"] == "sh" and sim.scn.get("engine") == "lattice":
                self._shoot_model(jid, e, pre, out)

    def _membership(self, jid, e, pre, new, two):
        sim = self.sim
        left, mid, right = pre["interfaces"]
        ops = [float(pp.order[0]) for pp in new.phasepoints]
        sc = set(pre["start_cond"])
        tag = f"job {jid} ens {e} ({'zero swap' if two else pre['move']})"

        def side(x):
            return "L" if x <= left else ("R" if x >= right else None)

        if len(ops) < 3:
            sim.violate("C09", "accepted_too_short", f"{tag}: accepted path of length {len(ops)}")
            return
        s0, s1 = side(ops[0]), side(ops[-1])
        if s0 not in sc:
            sim.violate("C09", "bad_start", f"{tag}: starts at {ops[0]} ({s0}), allowed {sorted(sc)}; "
                        f"interfaces {pre['interfaces']}")
        if e == -1:
            ok_end = s1 in sc if sc == {"L", "R"} else s1 == "R"
        else:
            ok_end = s1 in ("L", "R")
        if not ok_end:
            sim.violate("C09", "bad_end", f"{tag}: ends at {ops[-1]} ({s1}); interfaces {pre['interfaces']}")
        for k, x in enumerate(ops[1:-1], 1):
            if not left < x < right:
                sim.violate("C09", "interior_outside", f"{tag}: frame {k} at {x} outside ({left},{right})")
        if sc != {"L", "R"} and not (min(ops) < mid <= max(ops)):
            sim.violate("C09", "middle_not_crossed", f"{tag}: path [{min(ops)},{max(ops)}] does not "
                        f"cross {mid}")
        if len(ops) > self.maxlength:
            sim.violate("C09", "too_long", f"{tag}: length {len(ops)} > maxlength {self.maxlength}")
        if len(ops) == self.maxlength:
            sim.k.probe("accepted_len_eq_maxlength")
        widx = 0 if e == -1 else e
        w = new.weights
        if w is None or len(w) <= widx or w[widx] == 0:
            sim.violate("C09", "zero_own_weight", f"{tag}: weights {w}")
        if sim.scn.get("engine") == "lattice":
            for a, b in zip(ops, ops[1:]):
                if abs(a - b) > 1.0 + 1e-9:
                    sim.violate("C09", "not_time_ordered", f"{tag}: consecutive frames {a} -> {b}")
            for k, pp in enumerate(new.phasepoints):
                try:
                    with open(pp.config[0]) as fh:
                        x = float(fh.read().split()[pp.config[1]])
                except Exception as exc:
                    sim.violate("C09", "frame_unreadable", f"{tag}: frame {k} {pp.config}: {exc}")
                if x != ops[k]:
                    sim.violate("C09", "order_not_from_frame", f"{tag}: frame {k} stored {ops[k]}, file {x}")
        gen = new.generated
        if gen and gen[0] == "sh" and not two:
            sp_order, idx_old, idx_new = float(gen[1]), int(gen[2]), int(gen[3])
            old_ops = [o[0] for o in pre["snap"]["orders"]]
            if not (0 <= idx_new < len(ops)) or ops[idx_new] != sp_order or old_ops[idx_old] != sp_order:
                sim.violate("C09", "shooting_point_not_contained",
                            f"{tag}: generated={gen}, new[{idx_new}]={ops[idx_new] if 0 <= idx_new < len(ops) else None}, "
                            f"old[{idx_old}]={old_ops[idx_old]}")

    # ------------------------------------------------------------------ reference model
    def _walk(self, eg, x, left, right, cap):
        """Unconstrained lattice walk from x until it leaves (left, right); at most cap frames."""
        out = [x]
        while left <= out[-1] <= right and len(out) < cap:
            if eg.random() < 0.5:
                x += 1
            elif x > self.wall:
                x -= 1
            out.append(x)
        return out

    def _shoot_model(self, jid, e, pre, out):
        sim = self.sim
        rg, eg = pre["rg"], pre["eg"]
        old_ops = [int(o[0]) for o in pre["snap"]["orders"]]
        lold = len(old_ops)
        left, mid, right = pre["interfaces"]
        idx = int(rg.integers(1, lold - 1))
        x0 = old_ops[idx]
        maxlength = pre["tis"]["maxlength"]
        if pre["old_move"] == "ld" or pre["tis"].get("allowmaxlength", False):
            maxlen, xi = maxlength, None
            capbound = True
        else:
            xi = rg.random()
            maxlen = min(int((lold - 2) / xi) + 2, maxlength)
            capbound = int((lold - 2) / xi) + 2 >= maxlength
        # When the global maxlength (not the drawn number) is the binding limit the property only
        # says "does not exceed the limit"; equality there is left undecided by the model.
        cap = maxlength + 3
        # the walk first draws for the step *after* writing the start frame; stop test precedes draws
        back = self._walk(eg, x0, left, right, cap)
        if len(back) >= cap or not (back[-1] < left or back[-1] > right):
            return          # not decided within the global cap: ambiguous zone, no prediction
        gen = out["generated"][0]
        status = out["status"]
        n_old = lold - 2
        self.n_model += 1
        if int(gen[2]) != idx:
            sim.violate("C09", "model_shooting_index", f"job {jid}: move used index {gen[2]}, the "
                        f"job's move stream gives {idx}")
        sc = set(pre["start_cond"])
        back_end = "L" if back[-1] <= left else "R"
        if capbound and len(back) >= maxlength - 1:
            return
        # backward too long for any forward step?
        if len(back) > maxlen - 1:
            self._expect(jid, e, status, False, f"backward walk of {len(back)} frames > maxlen-1={maxlen-1}",
                         xi, n_old, None)
            return
        if back_end not in sc:
            self._expect(jid, e, status, False, f"backward walk ends {back_end}, allowed {sorted(sc)}",
                         xi, n_old, None)
            return
        forw = self._walk(eg, x0, left, right, cap)
        if len(forw) >= cap or not (forw[-1] < left or forw[-1] > right):
            return
        trial = back[::-1] + forw[1:]
        n_new = len(trial) - 2
        if capbound and len(trial) >= maxlength:
            return
        if len(trial) == maxlen:
            sim.k.probe("trial_len_eq_maxlen")
        if len(trial) > maxlen:
            self._expect(jid, e, status, False, f"trial of {len(trial)} frames > maxlen {maxlen}", xi,
                         n_old, n_new)
            return
        if sc != {"L", "R"} and not (min(trial) < mid <= max(trial)):
            self._expect(jid, e, status, False, "trial does not cross the middle interface", xi, n_old, n_new)
            return
        if "L" not in sc and (trial[0] <= left or trial[-1] <= left) and left > float("-inf"):
            self._expect(jid, e, status, False, "0-L", xi, n_old, n_new)
            return
        self._expect(jid, e, status, True, "valid trial within the length bound", xi, n_old, n_new)
        if status == "ACC":
            got = [int(pp.order[0]) for pp in out["picked"][e]["traj"].phasepoints]
            if got != trial:
                sim.violate("C09", "model_path_differs", f"job {jid} ens {e}: accepted path {got} but the "
                            f"job's streams give {trial}")

    def _expect(self, jid, e, status, accept, why, xi, n_old, n_new):
        if (status == "ACC") != accept:
            thr = None if not n_new else n_old / n_new
            self.sim.violate(
                "C09", "acceptance_rule",
                f"job {jid} ens {e}: status {status} but the reference model says "
                f"{'accept' if accept else 'reject'} ({why}); xi={xi}, n_old={n_old}, n_new={n_new}, "
                f"n_old/n_new={thr}",
                site="trial_fills_length_bound" if (accept and status in ("FTL", "FTX", "BTL", "BTX"))
                else None)

    def summary(self):
        return {"model_predictions": self.n_model, "accepted_checked": self.n_acc}


# ======================================================================================
class C14Monitor(Monitor):
    """Stored paths read back unchanged; live paths never lose files; deletion lag."""

    def __init__(self):
        self.known_live = set()
        self.initial_hash = {}
        self.replaced = {}       # pn -> counter value (non-initial replacements) when replaced
        self.nrep = 0            # stored replacements of non-initial paths so far (this incarnation)
        self.loaded = 0
        self.deleted_seen = 0
        self.checked_files = 0

    def _load_dir(self):
        st = self.sim.state
        return os.path.join(os.getcwd(), st.config["simulation"]["load_dir"])

    def _tree_hash(self, pdir):
        h = hashlib.sha256()
        for root, dirs, files in sorted(os.walk(pdir)):
            dirs.sort()
            for f in sorted(files):
                h.update(f.encode())
                h.update((_file_hash(os.path.join(root, f)) or "MISSING").encode())
        return h.hexdigest()[:16]

    def on_attach(self, state, md_items):
        self.E = state.n - 1
        self.known_live = set(int(p) for p in state.live_paths())
        ld = self._load_dir()
        for i in range(self.E):
            pdir = os.path.join(ld, str(i))
            if os.path.isdir(pdir):
                self.initial_hash[i] = self._tree_hash(pdir)
        self.delete_old = bool(state.config["output"].get("delete_old", False))
        self.delete_all = bool(state.config["output"].get("delete_old_all", False))
        self.keep = list(state.config["output"].get("keep_traj_fnames", []) or [])

    def _files_of(self, traj):
        return sorted(set(pp.config[0] for pp in traj.phasepoints))

    def _require_files(self, pn, traj, why):
        sim = self.sim
        pdir = os.path.join(self._load_dir(), str(pn))
        for name in ("traj.txt", "order.txt"):
            if not os.path.isfile(os.path.join(pdir, name)):
                sim.violate("C14", "live_path_lost_file", f"{why}: path {pn} lacks {name}")
        for f in self._files_of(traj):
            self.checked_files += 1
            if not os.path.isfile(f):
                sim.violate("C14", "live_path_lost_file", f"{why}: path {pn} lacks {f}")
            if os.path.realpath(os.path.dirname(f)) != os.path.realpath(os.path.join(pdir, "accepted")):
                sim.violate("C14", "file_outside_own_dir", f"{why}: path {pn} references {f}")
            if pn >= self.E and "_traj" in os.path.basename(f):      # files written by propagate()
                for ext in self.keep:
                    extra = os.path.splitext(f)[0] + ext
                    if not os.path.isfile(extra):
                        sim.violate("C14", "kept_file_missing", f"{why}: path {pn}: {extra} (keep_traj_fnames "
                                    f"{self.keep}) was not stored with {os.path.basename(f)}")

    def post_treat(self, md):
        from infretis.classes.path import load_path
        sim, st = self.sim, self.sim.state
        ld = self._load_dir()
        live = [int(p) for p in st.live_paths()]
        # ---- paths just stored: round trip
        new = [p for p in live if p not in self.known_live]
        for pn in new:
            traj = st._trajs[live.index(pn)]
            pdir = os.path.join(ld, str(pn))
            try:
                back = load_path(pdir)
            except BaseException as exc:
                sim.violate("C14", "stored_path_does_not_load", f"path {pn}: {type(exc).__name__}: {exc}")
                continue
            self.loaded += 1
            if back.length != traj.length:
                sim.violate("C14", "roundtrip_length", f"path {pn}: stored {traj.length}, loaded {back.length}")
                continue
            for k, (a, b) in enumerate(zip(traj.phasepoints, back.phasepoints)):
                ra = (os.path.basename(a.config[0]), int(a.config[1] or 0), bool(a.vel_rev))
                rb = (os.path.basename(b.config[0]), int(b.config[1]), bool(b.vel_rev))
                if ra != rb:
                    sim.violate("C14", "roundtrip_frame_ref", f"path {pn} frame {k}: stored {ra}, loaded {rb}")
                if os.path.realpath(a.config[0]) != os.path.realpath(b.config[0]):
                    sim.violate("C14", "roundtrip_frame_file", f"path {pn} frame {k}: {a.config[0]} vs {b.config[0]}")
                oa = [round(float(x), 6) for x in a.order]
                ob = [round(float(x), 6) for x in b.order]
                if len(oa) != len(ob) or any(abs(x - y) > 1.1e-6 for x, y in zip(oa, ob)):
                    sim.violate("C14", "roundtrip_order", f"path {pn} frame {k}: stored {oa}, loaded {ob}")
                for key in ("vpot", "ekin"):
                    va, vb = getattr(a, key, None), getattr(b, key, None)
                    if va is not None and float(va) == float(va) and (vb is None or not (abs(float(va) - float(vb))
                                                                <= 1e-6 * max(1, abs(float(va))))):    # nan fails
                        sim.violate("C14", "roundtrip_energy", f"path {pn} frame {k} {key}: {va} vs {vb}")
        # ---- replaced paths
        if md.get("status") == "ACC":
            for pn_old in md["pnum_old"]:
                pn_old = int(pn_old)
                if pn_old >= self.E:
                    self.nrep += 1
                    self.replaced[pn_old] = self.nrep
                else:
                    self.replaced[pn_old] = None      # initial path: never deleted
        self.known_live.update(live)
        # ---- every live / in-flight / restart-listed path has its files
        for pn in live:
            self._require_files(pn, st._trajs[live.index(pn)], "after treat_output")
        import tomli
        try:
            with open("restart.toml", "rb") as fh:
                active = [int(a) for a in tomli.load(fh)["current"]["active"]]
        except Exception as exc:
            active = []
            sim.violate("C14", "restart_unreadable", f"{type(exc).__name__}: {exc}")
        for pn in active:
            if pn not in live:
                sim.violate("C14", "restart_lists_dead_path", f"restart.toml active {active}, live {live}")
        # ---- initial paths untouched
        for i, h in self.initial_hash.items():
            if self._tree_hash(os.path.join(ld, str(i))) != h:
                sim.violate("C14", "initial_path_touched", f"files of initial path {i} changed or vanished")
        # ---- deletion discipline for replaced paths
        for pn, when in list(self.replaced.items()):
            pdir = os.path.join(ld, str(pn))
            acc = os.path.join(pdir, "accepted")
            files_left = os.path.isdir(acc) and len(os.listdir(acc)) > 0
            gone = not files_left
            if not gone:
                continue
            self.deleted_seen += 1
            sim.k.probe("old_path_files_deleted")
            if when is None:
                sim.violate("C14", "initial_path_deleted", f"initial path {pn} lost its files")
            elif not self.delete_old:
                sim.violate("C14", "deleted_without_delete_old", f"path {pn} deleted, delete_old is off")
            elif self.nrep - when < self.E:
                sim.violate("C14", "deleted_before_lag",
                            f"path {pn} deleted after {self.nrep - when} further replacements, lag is {self.E}")
            if self.delete_all and os.path.isdir(pdir) and self.delete_old and when is not None:
                sim.violate("C14", "delete_old_all_left_dir", f"path {pn}: directory still there")
            if not self.delete_all and not os.path.isfile(os.path.join(pdir, "order.txt")):
                sim.violate("C14", "txt_deleted_without_delete_old_all", f"path {pn}: order.txt gone")
            self.replaced.pop(pn)

    def on_submit(self, jid, md, info):
        for e, pe in md["picked"].items():
            self._require_files(int(pe["traj"].path_number), pe["traj"], f"issue of job {jid}")

    def on_complete(self, fut, info):
        # files of paths still in flight must have survived everything main did meanwhile
        st = self.sim.state
        live = [int(p) for p in st.live_paths()]
        for j in self.sim.inflight.values():
            for pn in j["paths"]:
                if pn in live:
                    self._require_files(pn, st._trajs[live.index(pn)], "in flight")

    def summary(self):
        return {"loaded": self.loaded, "deleted_seen": self.deleted_seen, "files_checked": self.checked_files}


# ======================================================================================
def _perm_ryser(a):
    """Exact permanent of a square matrix of Fractions (Ryser with Gray code is overkill here)."""
    from fractions import Fraction
    n = len(a)
    if n == 0:
        return Fraction(1)
    total = Fraction(0)
    for mask in range(1, 1 << n):
        prod = Fraction(1)
        for i in range(n):
            s = Fraction(0)
            row = a[i]
            m, j = mask, 0
            while m:
                if m & 1:
                    s += row[j]
                m >>= 1
                j += 1
            prod *= s
            if prod == 0:
                break
        bits = bin(mask).count("1")
        total += prod if (n - bits) % 2 == 0 else -prod
    return total


def _scc_sizes(adj):
    """Sizes of the strongly connected components of a digraph given as a boolean matrix (Tarjan)."""
    n = len(adj)
    index, low, on, stack, sizes, counter = {}, {}, set(), [], [], [0]

    def visit(v):
        work = [(v, iter([w for w in range(n) if adj[v][w]]))]
        index[v] = low[v] = counter[0]
        counter[0] += 1
        stack.append(v)
        on.add(v)
        while work:
            node, it = work[-1]
            advanced = False
            for w in it:
                if w not in index:
                    index[w] = low[w] = counter[0]
                    counter[0] += 1
                    stack.append(w)
                    on.add(w)
                    work.append((w, iter([x for x in range(n) if adj[w][x]])))
                    advanced = True
                    break
                if w in on:
                    low[node] = min(low[node], index[w])
            if advanced:
                continue
            work.pop()
            if work:
                low[work[-1][0]] = min(low[work[-1][0]], low[node])
            if low[node] == index[node]:
                size = 0
                while True:
                    w = stack.pop()
                    on.discard(w)
                    size += 1
                    if w == node:
                        break
                sizes.append(size)

    for v in range(n):
        if v not in index:
            visit(v)
    return sizes


def _largest_block(nz):
    """Size of the largest fully indecomposable block of a square 0/1 pattern with a perfect matching:
    put a perfect matching on the diagonal (augmenting paths), then take strongly connected components."""
    n = len(nz)
    match_col = [-1] * n            # column -> row

    def augment(r, seen):
        for c in range(n):
            if nz[r][c] and c not in seen:
                seen.add(c)
                if match_col[c] == -1 or augment(match_col[c], seen):
                    match_col[c] = r
                    return True
        return False

    for r in range(n):
        if not augment(r, set()):
            return 0
    row_col = {match_col[c]: c for c in range(n)}
    adj = [[bool(nz[i][row_col[j]]) for j in range(n)] for i in range(n)]
    return max(_scc_sizes(adj))


def _perm_glynn_float(a):
    """Permanent by Glynn's formula with Gray code, float64/longdouble (for blocks too large for Fractions)."""
    a = np.asarray(a, dtype=np.longdouble)
    n = a.shape[0]
    if n == 0:
        return np.longdouble(1)
    if n == 1:
        return a[0, 0]
    row_comb = a.sum(axis=0)
    total = np.longdouble(0)
    old_grey = 0
    sign = 1
    for k in range(1, 2 ** (n - 1) + 1):
        total += sign * np.prod(row_comb)
        new_grey = k ^ (k // 2)
        diff = old_grey ^ new_grey
        if diff:
            idx = diff.bit_length() - 1
            direction = 2 if old_grey > new_grey else -2
            row_comb = row_comb + a[idx] * direction
        sign = -sign
        old_grey = new_grey
    return total / (2 ** (n - 1))


class C02Monitor(Monitor):
    """Every P matrix the scheduler computes == exact permanent ratios on the idle block."""

    RTOL = 1e-8

    def __init__(self, maxn=9):
        self.maxn = maxn
        self.seen = set()
        self.checked = 0
        self.paths = {"fast": 0, "blocks": 0}
        self.cache = {}
        self.busy = False

    def on_prob(self, mat, locks, out):
        from fractions import Fraction
        if self.busy:
            return
        sim, st = self.sim, self.sim.state
        mat = np.asarray(mat, dtype=float)
        locks = np.asarray(locks)
        idle = [i for i in range(len(locks)) if locks[i] == 0]
        key = (mat.tobytes(), locks.tobytes())
        if key in self.cache:
            return
        self.cache[key] = True
        pattern = (tuple(map(tuple, (mat != 0).astype(int))), tuple(int(x) for x in locks),
                   bool(np.any((mat != 0) & (mat != 1))))
        self.seen.add(hash(pattern))
        out = np.asarray(out, dtype=float)
        n = len(locks)
        for i in range(n):
            for j in range(n):
                if (locks[i] == 1 or locks[j] == 1) and out[i, j] != 0:
                    sim.violate("C02", "nonzero_on_busy", f"P[{i},{j}]={out[i,j]} with locks {locks}")
                if mat[i, j] == 0 and out[i, j] != 0:
                    sim.violate("C02", "nonzero_where_weight_zero", f"P[{i},{j}]={out[i,j]}, W=0")
        if not idle or len(idle) > 14:
            return
        m = len(idle)
        big = m > self.maxn
        if big:
            # too large for exact rational arithmetic: long-double Glynn, looser tolerance
            wf_ = mat[np.ix_(idle, idle)].astype(np.longdouble)
            wf_ = wf_ / wf_.max(axis=1, keepdims=True)          # row scaling leaves the ratios unchanged
            perm = _perm_glynn_float(wf_)
            if perm == 0:
                sim.violate("C02", "no_perfect_matching", f"perm(W_idle)=0 (size {m})")
                return
            self.checked += 1
            sim.k.probe("large_idle_block_checked")
            exact = np.zeros((m, m))
            for a in range(m):
                rows = [r for r in range(m) if r != a]
                for b in range(m):
                    if wf_[a, b] == 0:
                        continue
                    cols = [c for c in range(m) if c != b]
                    exact[a, b] = float(wf_[a, b] * _perm_glynn_float(wf_[np.ix_(rows, cols)]) / perm)
            rtol = 1e-5           # Glynn in long double cancels: its own error reaches ~1e-8
        else:
            w = [[Fraction(float(mat[i, j])) for j in idle] for i in idle]
            perm = _perm_ryser(w)
            if perm == 0:
                sim.violate("C02", "no_perfect_matching", f"perm(W_idle)=0 for W=\n{mat}\nlocks {locks}")
                return
            self.checked += 1
            exact = np.zeros((m, m))
            for a in range(m):
                for b in range(m):
                    if w[a][b] == 0:
                        continue
                    minor = [[w[r][c] for c in range(m) if c != b] for r in range(m) if r != a]
                    exact[a, b] = float(w[a][b] * _perm_ryser(minor) / perm)
            rtol = self.RTOL
        got = out[np.ix_(idle, idle)]
        if not np.allclose(got, exact, rtol=rtol, atol=1e-6 if big else 1e-12):
            a, b = np.unravel_index(np.argmax(np.abs(got - exact)), got.shape)
            # irreducible blocks of the idle matrix (the idle diagonal is non-zero): above 12 rows with
            # unequal weights the code switches to a Monte-Carlo estimate
            sub = mat[np.ix_(idle, idle)]
            biggest = _largest_block(sub != 0)
            site = "monte_carlo_block_gt_12" if biggest > 12 else None
            err = float(np.max(np.abs(got - exact)))
            if site and err > 0.15:
                sim.violate("C02", "monte_carlo_far_off", f"block of {biggest}: max error {err}")
            sim.violate("C02", "prob_not_permanent_ratio",
                        f"P[{idle[a]},{idle[b]}]={got[a,b]!r}, exact {exact[a,b]!r} (largest irreducible block "
                        f"{biggest}); W_idle=\n{sub}\nlocks {locks}", site=site)
        if not (np.allclose(got.sum(axis=0), 1, atol=1e-9) and np.allclose(got.sum(axis=1), 1, atol=1e-9)):
            sim.violate("C02", "not_doubly_stochastic", f"row sums {got.sum(axis=1)}, col sums {got.sum(axis=0)}")
        weighted = bool(np.any((mat != 0) & (mat != 1)))
        self.paths["blocks" if weighted else "fast"] += 1
        if weighted:
            sim.k.probe("wf_unequal_weight_matrix")
        if big:
            return
        # ---- rescaling one path's weights leaves P unchanged; permanent code path agrees
        self.busy = True
        try:
            r = idle[self.checked % m]
            scaled = mat.copy()
            scaled[r, :] *= 3.5
            out2 = np.asarray(st.inf_retis(scaled, locks), dtype=float)
            if not np.allclose(out2, out, rtol=1e-7, atol=1e-10):
                sim.violate("C02", "not_scale_invariant", f"row {r} scaled by 3.5 changes P:\n{out}\nvs\n{out2}")
            if 2 <= m <= 7:
                pp = np.asarray(st.permanent_prob(mat[np.ix_(idle, idle)].astype("longdouble")), dtype=float)
                if not np.allclose(pp, exact, rtol=1e-7, atol=1e-10):
                    sim.violate("C02", "permanent_path_disagrees", f"permanent_prob gives\n{pp}\nexact\n{exact}")
        finally:
            self.busy = False

    def summary(self):
        return {"checked": self.checked, "distinct_states": len(self.seen), "paths": self.paths,
                "states": sorted(self.seen)[:2000]}
