"""Lattice random-walk engine, loaded through infretis' engine plug-in interface.

Symmetric +-1 walk on the integers with a lazy reflecting wall at ``wall``
(an attempted step below the wall stays in place).  The kernel is symmetric,
p(x->y) == p(y->x), hence reversible with respect to the uniform measure, so
"backward" propagation is the same kernel.  One draw of ``self.rgen`` per step.

A configuration file holds one integer per line (one line per frame).
"""
import os
import shutil

import numpy as np

from infretis.classes.engines.enginebase import EngineBase


class LatticeEngine(EngineBase):
    """Random walk on Z driven through EngineBase.propagate."""

    # (entropy, spawn key) of the generator every propagation drew from; read and cleared by the
    # simulator's C07 monitor around each job (observation only)
    used_streams = []

    def __init__(self, wall=-3, timestep=1.0, subcycles=1, aux=False, big_cv=0.0, energies=False):
        super().__init__("Lattice walk engine", timestep, subcycles)
        self.wall = int(wall)
        self.aux = bool(aux)            # also write <name>.aux next to every trajectory file
        self.big_cv = float(big_cv)     # non-zero: a second order column (collective variable) big_cv + x
        self.energies = bool(energies)  # frames carry energies (some exactly 0.0)
        self.ext = "lat"
        self.name = "lattice"
        self._beta = 1.0

    # required by create_external(..., ["step"])
    def step(self):
        """Plug-in marker method."""

    def set_mdrun(self, md_items):
        self.exe_dir = md_items["exe_dir"]

    @staticmethod
    def _read_lines(filename):
        with open(filename) as fh:
            return [int(line) for line in fh.read().split()]

    def _read_configuration(self, filename):
        x = self._read_lines(filename)[0]
        return np.array([[float(x)]]), np.zeros((1, 1)), np.zeros(3), None

    def _extract_frame(self, traj_file, idx, out_file):
        x = self._read_lines(traj_file)[idx]
        with open(out_file, "w") as fh:
            fh.write(f"{x}\n")

    def _reverse_velocities(self, filename, outfile):
        shutil.copyfile(filename, outfile)

    def modify_velocities(self, system, vel_settings):
        src = self.dump_frame(system)
        conf_out = os.path.join(self.exe_dir, f"genvel.{self.ext}")
        if src != conf_out:
            shutil.copyfile(src, conf_out)
        system.config = (conf_out, 0)
        system.ekin = 0.0
        return 0.0, 0.0

    def _propagate_from(self, name, path, system, ens_set, msg_file,
                        reverse=False):
        left, _, right = ens_set["interfaces"]
        seq = getattr(self.rgen.bit_generator, "_seed_seq", None)
        if seq is not None:
            type(self).used_streams.append((seq.entropy, tuple(int(v) for v in seq.spawn_key)))
        x = self._read_lines(system.config[0])[0]
        traj_file = os.path.join(self.exe_dir, f"{name}.{self.ext}")
        success, status = False, "lattice"
        step_nr = 0
        if self.aux:
            with open(os.path.join(self.exe_dir, f"{name}.aux"), "w") as fh:
                fh.write(f"auxiliary data of {name}\n")
        with open(traj_file, "w") as out:
            for _ in range(path.maxlen):
                out.write(f"{x}\n")
                out.flush()
                order = self.calculate_order(
                    system, xyz=np.array([[float(x)]]),
                    vel=np.zeros((1, 1)), box=np.zeros(3))
                if self.big_cv:
                    order = list(order) + [self.big_cv + x]
                snapshot = {"order": order, "config": (traj_file, step_nr),
                            "vel_rev": reverse}
                if self.energies:
                    snapshot["vpot"] = float(x % 3) - 1.0          # -1, 0, 1
                    snapshot["ekin"] = 0.5 * float(x % 2)           # 0, 0.5
                phase_point = self.snapshot_to_system(system, snapshot)
                status, success, stop, _ = self.add_to_path(
                    path, phase_point, left, right)
                if stop:
                    break
                step_nr += 1
                if self.rgen.random() < 0.5:
                    x += 1
                elif x > self.wall:
                    x -= 1
        msg_file.write("# Propagation done.")
        return success, status
