"""C03 - a busy ensemble, path, engine or work directory is never shared."""
import random

from checks import sched_common as C
from sim import monitors as M
from sim import scenario as SC
from sim import sched_sim as SS

PROP = "C03"
LEVEL = "exploration"
RULE = ("Each case is one simulated history of the real scheduler (lattice engine) under a seeded "
        "completion order / duration model, optionally with crashes and restarts. Distinct = distinct "
        "completion-order signature (sequence of (ensembles of the completing job, set of busy "
        "ensembles)) plus exit pattern; non-trivial = at least two jobs overlapped in flight, or a "
        "fault fired, or the history has more than one incarnation. Every fourth case belongs to an "
        "enumeration of small systems: (3 ens, 2 workers), (4, 3), (4, 2) x 6 steps: case j runs the j-th "
        "completion sequence (which in-flight job completes next, base-w digits) for one of 6 config seeds / "
        "move mixes, so a long enough run covers all w^5 orders of each.")
ASSUMPTIONS = [
    "jobs are isolated processes: executing run_md on a pickled copy at submission time is "
    "observationally equivalent for the main process",
    "interleaving granularity = order/timing of job completions and crashes between steps "
    "(the main process is single-threaded)",
]
REAL, STUB = C.REAL, C.STUB


def budget(tier):
    return 75 if tier == "quick" else 1500


def make_case(seed, i, tier):
    rng = random.Random(seed)
    if i % 4 == 0:
        # small systems: the completion order is enumerated, not sampled - case index j runs the
        # j-th binary/ternary completion sequence for one of a few config seeds and move mixes
        j = i // 4
        variants = [(3, 2), (4, 3), (4, 2), (3, 2)]
        n_intf, w = variants[j % len(variants)]
        j //= len(variants)
        steps = 6
        nseq = w ** (steps - 1)
        seq, cfg = j % nseq, (j // nseq) % 6
        digits = []
        for _ in range(steps - 1):
            digits.append(seq % w)
            seq //= w
        scn = SC.gen_scenario(random.Random(cfg), {"n_intf": n_intf, "workers": w, "steps": steps,
                                                   "order_model": "random", "maxlength": 40,
                                                   "config_seed": cfg, "wf_p": [0.0, 0.5, 1.0][cfg % 3]})
        scn["plan"] = [{"steps": steps}]
        return {"seed": seed, "scn": scn, "props": [PROP], "enumerated": True,
                "decisions": [["i0.complete", d] for d in digits]}
    small = rng.random() < 0.6
    prof = {"n_intf_choices": [2, 3, 3, 4] if small else [4, 5, 6, 8],
            "steps_choices": [4, 6, 8, 12] if small else [16, 24, 40],
            "maxlength": rng.choice([20, 40, 200])}
    scn = SC.gen_scenario(rng, prof)
    kind = rng.choice(["single", "single", "crash_chain", "mixed", "clean_chain", "tail"])
    scn["plan"] = C.gen_plan(rng, scn, kind)
    return {"seed": seed, "scn": scn, "props": [PROP]}


def monitors(case, inc):
    return [M.C03Monitor()]


def run(case):
    res = SS.run_case(case, monitors)
    out = C.result_from(res, case)
    states = set()
    for inc, mon in (res.get("mon") or {}).items():
        states.update(mon.get("C03Monitor", {}).get("busy_states", []))
    out["cov"] = {"distinct_busy_states": sorted(states)}
    return out


shrink_candidates = C.shrink_candidates
