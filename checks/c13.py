"""C13 - on-the-fly trajectory readers never return a torn frame."""
import os
import random
import shutil
import traceback

import numpy as np

from sim import common
from sim import proc_sim as P
from sim.kernel import Kernel, hash64

PROP = "C13"
LEVEL = "exploration"
RULE = ("One case = one generated trajectory (format in {LAMMPS dump, CP2K xyz, GROMACS TRR}; 1-40 atoms, "
        "1-12 frames, number formats, shuffled ids, 2/3-column box lines, TRR endianness x precision x "
        "with/without velocities) written by a simulated MD program at byte granularity while the real "
        "reader is polled in between: (i) every single cut position of the file is enumerated (write c "
        "bytes, poll, write the rest, poll as often as the engines do after the program ended), (ii) seeded "
        "multi-cut schedules with a seeded number of polls per cut. Oracle: no exception; everything "
        "returned so far is a prefix of the written frames with exactly the written values and never more "
        "frames than are completely on disk; nothing twice; everything delivered by the single poll that "
        "follows the end of the writer. evaluations "
        "= (trajectory, cut schedule) executions; distinct_nontrivial = distinct (format, variant, kind of "
        "line and token position the cut falls in).")
ASSUMPTIONS = [
    "a text frame of which every byte except its final newline is on disk counts as completely on disk "
    "(all of its values are there; the LAMMPS reader accepts it by design through its trailing-id sentinel)",
    "the writer is append-only (no rewriting of bytes already written), as the three programs are",
    "after the program has ended the LAMMPS / CP2K loops read exactly once more: that one poll must "
    "deliver everything on disk (TRR: the read-remaining path after the process exited)",
]
REAL = ["infretis.classes.engines.engineparts.ReadAndProcessOnTheFly, lammpstrj_reader, xyz_reader",
        "infretis.classes.engines.gromacs.GromacsRunner.start/get_gromacs_frames/read_remaining_trr/"
        "read_trr_header/get_data", "real files on tmpfs written at byte granularity"]
STUB = ["the MD program: a writer holding the full byte string of a generated trajectory; for TRR a "
        "simulated subprocess.Popen object (poll/returncode/pid) and a virtual sleep that advances the writer"]


def budget(tier):
    return 90 if tier == "quick" else 1500


# --------------------------------------------------------------------------------------
def gen_traj(rng, fmt):
    natoms = rng.choice([1, 2, 2, 3, 5, 11, 12, 23, 40]) if fmt != "lammps" else rng.choice([2, 2, 3, 5, 11, 12, 23, 40])
    nframes = rng.choice([1, 2, 3, 3, 5, 8, 12])
    style = rng.choice(["fixed", "sci", "short", "long", "repr"])
    frames = []
    meta = {"fmt": fmt, "natoms": natoms, "nframes": nframes, "style": style}
    if fmt == "lammps":
        box_cols = rng.choice([2, 2, 3])
        meta["box_cols"] = box_cols
        ids = list(range(1, natoms + 1))
        data, ends, expected = b"", [], []
        for f in range(nframes):
            order = ids[:]
            if rng.random() < 0.7:
                rng.shuffle(order)
            pos = {i: [rng.uniform(-50, 50) for _ in range(3)] for i in ids}
            vel = {i: [rng.gauss(0, 1) * 10 ** rng.choice([-3, 0, 2]) for _ in range(3)] for i in ids}
            box = [[rng.uniform(-5, 0), rng.uniform(10, 60), rng.uniform(-1, 1)] for _ in range(3)]
            types = [1 + (i % 3) for i in order]
            b = P.lammps_frame(f * 10, order, types, [pos[i] for i in order], [vel[i] for i in order], box,
                               style, box_cols)
            data += b
            ends.append(len(data))
            expected.append(P.parse_lammps_expected(order, [pos[i] for i in order], [vel[i] for i in order],
                                                    box, style, box_cols))
        return meta, data, ends, expected
    if fmt == "xyz":
        names = [rng.choice(["H", "O", "C", "Si", "Na"]) for _ in range(natoms)]
        data, ends, expected = b"", [], []
        for f in range(nframes):
            vals = [[rng.uniform(-30, 30) * 10 ** rng.choice([-4, 0, 0, 1]) for _ in range(3)] for _ in range(natoms)]
            b = P.xyz_frame(f, names, vals, style, time=f * 0.5, energy=-rng.random() * 100)
            data += b
            ends.append(len(data))
            expected.append(P.parse_xyz_expected(vals, style))
        return meta, data, ends, expected
    if fmt == "trr":
        endian = rng.choice([">", "<"])
        double = rng.random() < 0.5
        withv = rng.random() < 0.7
        meta.update(endian=endian, double=double, withv=withv)
        data, ends, expected = b"", [], []
        for f in range(nframes):
            box = [[rng.uniform(1, 9) if i == j else 0.0 for j in range(3)] for i in range(3)]
            x = [[rng.uniform(-5, 5) for _ in range(3)] for _ in range(natoms)]
            v = [[rng.gauss(0, 1) for _ in range(3)] for _ in range(natoms)] if withv else None
            b = P.trr_frame(f, f * 0.002, box, x, v, endian, double)
            data += b
            ends.append(len(data))
            expected.append(P.trr_expected(box, x, v, double))
        return meta, data, ends, expected
    raise ValueError(fmt)


def cut_class(meta, data, c):
    """Structural description of the byte position c (for the distinctness measure)."""
    fmt = meta["fmt"]
    if fmt == "trr":
        return (fmt, meta["endian"], meta["double"], meta["withv"], "frame_boundary" if False else "binary")
    text = data.decode()
    ls = text.rfind("\n", 0, c) + 1
    le = text.find("\n", c)
    line = text[ls:le if le >= 0 else len(text)]
    at_line_start = c == ls
    before_nl = c < len(text) and text[c] == "\n"
    in_token = (c > 0 and not text[c - 1].isspace()) and (c < len(text) and not text[c].isspace())
    if fmt == "lammps":
        if line.startswith("ITEM:"):
            kind = line.split()[1] if len(line.split()) > 1 else "item"
        else:
            n = len(line.split())
            kind = {1: "scalar", 2: "box", 3: "box3", 9: "atom"}.get(n, f"n{n}")
    else:
        n = len(line.split())
        kind = "natoms" if n == 1 else ("atom" if n == 4 else "comment")
    return (fmt, meta["style"], kind, "start" if at_line_start else ("before_nl" if before_nl else
                                                                     ("in_token" if in_token else "between")))


# --------------------------------------------------------------------------------------
class Violation(Exception):
    def __init__(self, vclass, msg):
        super().__init__(msg)
        self.vclass = vclass


def _cmp_frames(fmt, got, exp, where):
    if fmt == "lammps":
        g, gb = got
        e, eb = exp
        if g.shape != e.shape or not np.array_equal(g, e):
            raise Violation("wrong_values", f"{where}: coordinates differ from the written frame: got "
                            f"{g.tolist()[:2]} want {e.tolist()[:2]}")
        if not np.array_equal(np.asarray(gb, dtype=float), eb):
            raise Violation("wrong_values", f"{where}: box differs: got {np.asarray(gb).tolist()} want {eb.tolist()}")
    elif fmt == "xyz":
        if got.shape != exp.shape or not np.array_equal(got, exp):
            raise Violation("wrong_values", f"{where}: got {got.tolist()[:2]} want {exp.tolist()[:2]}")
    else:
        for key in exp:
            if key not in got or not np.array_equal(np.asarray(got[key], dtype=float), exp[key]):
                raise Violation("wrong_values", f"{where}: TRR field {key} differs")
        if "v" not in exp and got.get("v") is not None and "v" in got:
            raise Violation("wrong_values", f"{where}: velocities returned but none written")


def run_text_schedule(meta, data, ends, expected, cuts, polls, scratch):
    """LAMMPS / xyz readers under one cut schedule. cuts: increasing byte offsets; polls[i] polls after cut i."""
    from infretis.classes.engines.engineparts import ReadAndProcessOnTheFly, lammpstrj_reader, xyz_reader
    fmt = meta["fmt"]
    path = os.path.join(scratch, f"traj.{fmt}")
    if os.path.exists(path):
        os.remove(path)
    w = P.ChunkWriter(path, data, ends)
    reader = ReadAndProcessOnTheFly(path, lammpstrj_reader if fmt == "lammps" else xyz_reader)
    got = 0
    npolls = 0

    def poll(where):
        nonlocal got, npolls
        npolls += 1
        try:
            out = reader.read_and_process_content()
        except Exception as exc:
            raise Violation("reader_raised", f"{where}: {type(exc).__name__}: {exc} "
                            f"[{traceback.format_exc().splitlines()[-3].strip()}]")
        if fmt == "lammps":
            frames = list(zip(out[0], out[1])) if out else []
            if out and len(out[0]) != len(out[1]):
                raise Violation("frames_boxes_mismatch", f"{where}: {len(out[0])} frames, {len(out[1])} boxes")
        else:
            frames = list(out)
        for fr in frames:
            if got >= len(expected):
                raise Violation("extra_frame", f"{where}: frame {got} returned, only {len(expected)} written")
            if got + 1 > w.complete_frames(newline_slack=True):
                raise Violation("torn_frame_returned",
                                f"{where}: frame {got} returned with {w.pos} of {ends[got]} bytes on disk")
            _cmp_frames(fmt, fr, expected[got], f"{where} frame {got}")
            got += 1

    for i, c in enumerate(cuts):
        w.write_upto(c)
        for p in range(polls[i] if i < len(polls) else 1):
            poll(f"after {w.pos}/{len(data)} bytes")
    w.write_all()
    # the LAMMPS / CP2K polling loops read exactly once more after they notice that the program has
    # ended, so one poll must deliver everything that is on disk
    poll("after the writer finished (the one poll the engines still make)")
    if got != len(expected):
        raise Violation("frames_not_delivered", f"{got} of {len(expected)} frames delivered by the poll "
                        f"after the writer finished")
    poll("a further poll (must return nothing new)")
    return npolls


class ReaderHang(BaseException):
    """Spin bound of the TRR reader loop (not an Exception: the code under test cannot swallow it)."""


class FakeProc:
    """subprocess.Popen stand-in for GromacsRunner."""

    def __init__(self, ctl):
        self.ctl = ctl
        self.pid = 424242
        self.returncode = None
        self.stdin = self.stdout = self.stderr = None

    def poll(self):
        self.ctl.tick()
        if self.ctl.exited and self.returncode is None:
            self.returncode = self.ctl.exit_code
        return self.returncode

    def wait(self, timeout=None):
        self.ctl.exited = True
        self.returncode = self.ctl.exit_code if self.returncode is None else self.returncode
        return self.returncode


class TrrCtl:
    """Advances the TRR writer at every sleep()/poll() of the reader."""

    def __init__(self, writer, cuts, polls, edr_path):
        self.w = writer
        self.cuts = list(cuts)
        self.polls = list(polls)
        self.edr = edr_path
        self.ticks_left = 0
        self.exited = False
        self.exit_code = 0
        self.after_done = 2
        self.nticks = 0
        self.max_ticks = 200000

    on_tick = None

    def tick(self):
        self.nticks += 1
        if self.on_tick:
            self.on_tick()
        if self.nticks > self.max_ticks:
            raise Violation("reader_hangs", "TRR reader did not finish within the step budget")
        if self.ticks_left > 0:
            self.ticks_left -= 1
            return
        if self.cuts:
            c = self.cuts.pop(0)
            self.w.write_upto(c)
            if not os.path.exists(self.edr):
                open(self.edr, "wb").close()
            self.ticks_left = self.polls.pop(0) if self.polls else 0
            return
        if not self.w.done:
            self.w.write_all()
            if not os.path.exists(self.edr):
                open(self.edr, "wb").close()
            if self.after_done == 0:
                self.exited = True
            return
        if self.after_done > 0:
            self.after_done -= 1
            return
        self.exited = True

    def sleep(self, dt):
        self.tick()


def run_trr_schedule(meta, data, ends, expected, cuts, polls, scratch, linger=2):
    import infretis.classes.engines.gromacs as G
    path = os.path.join(scratch, "traj.trr")
    edr = os.path.join(scratch, "traj.edr")
    for f in (path, edr):
        if os.path.exists(f):
            os.remove(f)
    w = P.ChunkWriter(path, data, ends)
    ctl = TrrCtl(w, cuts, polls, edr)
    ctl.after_done = linger        # 0: mdrun exits in the same instant as its last write

    class _Sub:
        PIPE = -1

        @staticmethod
        def Popen(*a, **kw):
            return FakeProc(ctl)

    spin = [0]

    class _Path:
        def __getattr__(self, name):
            real = getattr(os.path, name)
            if name != "getsize":
                return real

            def counted(*a, **kw):
                spin[0] += 1
                if spin[0] > 200000:
                    raise ReaderHang("the reader polled the file size 200000 times without sleeping or polling mdrun")
                return real(*a, **kw)
            return counted
    path_proxy = _Path()
    ctl.on_tick = lambda: spin.__setitem__(0, 0)

    class _Os:
        def __getattr__(self, name):
            if name == "path":
                return path_proxy
            if name == "setsid":
                return None
            if name == "killpg":
                return lambda *a: setattr(ctl, "exited", True)
            if name == "getpgid":
                return lambda pid: pid
            return getattr(os, name)

    old = (G.subprocess, G.sleep, G.os)
    G.subprocess, G.sleep, G.os = _Sub, ctl.sleep, _Os()
    got = 0
    try:
        runner = G.GromacsRunner(["gmx", "mdrun"], path, edr, scratch)
        try:
            runner.start()
            for fr in runner.get_gromacs_frames():
                if got >= len(expected):
                    raise Violation("extra_frame", f"TRR frame {got} returned, only {len(expected)} written")
                if got + 1 > w.complete_frames():
                    raise Violation("torn_frame_returned", f"TRR frame {got} returned with {w.pos} of "
                                    f"{ends[got]} bytes on disk")
                _cmp_frames("trr", fr, expected[got], f"TRR frame {got}")
                got += 1
        except Violation:
            raise
        except ReaderHang as exc:
            raise Violation("reader_hangs", f"TRR after {w.pos}/{len(data)} bytes: {exc}")
        except Exception as exc:
            raise Violation("reader_raised", f"TRR after {w.pos}/{len(data)} bytes: {type(exc).__name__}: {exc} "
                            f"[{traceback.format_exc().splitlines()[-3].strip()}]")
        finally:
            try:
                runner.stop_read = True
                runner.running = None
                runner.close()
            except Exception:
                pass
        if got != len(expected):
            raise Violation("frames_not_delivered", f"TRR: {got} of {len(expected)} frames delivered")
        return ctl.nticks
    finally:
        G.subprocess, G.sleep, G.os = old


def make_case(seed, i, tier):
    rng = random.Random(seed)
    fmt = ["lammps", "xyz", "trr"][i % 3]
    return {"seed": seed, "fmt": fmt, "props": [PROP], "tier": tier,
            "nmulti": 40 if tier == "quick" else 300}


def run(case):
    rng = random.Random(case["seed"])
    fmt = case["fmt"]
    meta, data, ends, expected = gen_traj(rng, fmt)
    if case.get("traj"):
        meta, data, ends, expected = case["traj"]
    k = Kernel(case["seed"], case.get("decisions"))
    scratch = os.path.join(common.scratch_root(), f"c13-{case['seed']}-{os.getpid()}")
    os.makedirs(scratch, exist_ok=True)
    runner = run_trr_schedule if fmt == "trr" else run_text_schedule
    violations = []
    evals = 0
    classes = set()
    torn_polls = 0
    only = case.get("only")          # replay: a single schedule
    try:
        schedules = []
        if only is not None:
            schedules = [only]
        else:
            n = len(data)
            cap = 2500 if case.get("tier") == "quick" else 12000
            if n > cap:
                # every cut in the first two frames and around every frame boundary, the rest sampled
                head = ends[1] if len(ends) > 1 else ends[0]
                cutpos = set(range(1, min(head + 2, n, cap)))
                cutpos |= set(rng.randrange(1, n) for _ in range(cap // 2))
                cutpos |= set(e + d for e in [0] + ends[:-1] for d in (-2, -1, 0, 1, 3, 4, 12, 24, 76, 84, 92)
                              if 0 < e + d < n)
                cutpos = sorted(cutpos)
            else:
                cutpos = range(1, n)
            for c in cutpos:
                schedules.append({"cuts": [c], "polls": [1 + (c % 2)], "linger": (c // 2) % 3})
            for _ in range(case.get("nmulti", 40)):
                m = k.choose("ncuts", 6) + 2
                cuts = sorted(set(1 + k.choose("cut", max(1, n - 1)) for _ in range(m)))
                schedules.append({"cuts": cuts, "polls": [k.choose("polls", 3) for _ in cuts],
                                  "linger": 2 - k.choose("exit_with_last_write", 3)})
        for sch in schedules:
            evals += 1
            for c in sch["cuts"]:
                classes.add(cut_class(meta, data, c))
                if c not in ends:
                    torn_polls += 1
            try:
                if fmt == "trr":
                    runner(meta, data, ends, expected, sch["cuts"], sch["polls"], scratch,
                           linger=sch.get("linger", 2))
                else:
                    runner(meta, data, ends, expected, sch["cuts"], sch["polls"], scratch)
            except Violation as v:
                site = f"{fmt}_reader"
                known = any(e.get("property") == PROP and e.get("class") == v.vclass
                            and e.get("site") in (None, site) for e in case.get("known", []))
                violations.append({"prop": PROP, "class": v.vclass, "msg": f"{meta} cuts={sch['cuts']} "
                                   f"polls={sch['polls']}: {v}"[:700], "site": site, "inc": None, "step": None,
                                   "known": known, "schedule": sch})
                if not known:
                    _LAST_FAIL[case["seed"]] = sch
                    break
    finally:
        shutil.rmtree(scratch, ignore_errors=True)
    return {
        "violations": violations, "trace": k.trace, "digest": str(hash64(str(violations[:1]))),
        "probes": {"cut_schedules": evals, "cuts_inside_a_frame": torn_polls},
        "faults": {"partial_write_visible_to_reader": torn_polls}, "stats": {}, "sim_time": 0.0, "ksteps": evals,
        "sig": str(sorted(map(str, classes))[:3]) + str(meta), "nontrivial": torn_polls > 0,
        "cov": {"distinct_cut_classes": sorted(map(str, classes)), "cut_schedules_run": evals},
        "sample": {"seed": case["seed"], "meta": meta, "bytes": len(data), "frame_ends": ends[:6],
                   "schedules": [s for s in schedules[:2]] + schedules[-2:]},
    }


_LAST_FAIL = {}


def shrink_candidates(case):
    """Re-run with only the failing schedule, then with fewer cuts / polls."""
    sch = _LAST_FAIL.get(case["seed"])
    if case.get("only") is None and sch is not None:
        yield dict(case, only=sch)
    only = case.get("only")
    if only:
        cuts, polls = only["cuts"], only["polls"]
        for i in range(len(cuts)):
            if len(cuts) > 1:
                yield dict(case, only=dict(only, cuts=cuts[:i] + cuts[i + 1:], polls=polls[:i] + polls[i + 1:]))
        for i, p in enumerate(polls):
            if p > 1:
                yield dict(case, only=dict(only, polls=polls[:i] + [1] + polls[i + 1:]))


def finalize(coverage, tier):
    coverage["trajectories"] = coverage["evaluations"]
    coverage["evaluations"] = int(coverage.get("cut_schedules_run", coverage["evaluations"]))
    coverage["distinct_nontrivial"] = int(coverage.get("distinct_cut_classes", 0))
