"""Builders for real in-process engines (TurtleMD, ASE, lattice plug-in) used by C12 and C07."""
import os
import shutil

import numpy as np

from sim import common
from sim import scenario as SC


def build_turtle(scratch, integrator="LangevinInertia", seed=1, settings_seed=None, subcycles=1):
    import tomli
    from infretis.classes.engines.factory import create_engine
    from infretis.classes.orderparameter import create_orderparameter
    from infretis.classes.engines.engineparts import write_xyz_trajectory
    with open(os.path.join(common.REPO, "test", "simulations", "data", "wf.toml"), "rb") as fh:
        cfg = tomli.load(fh)
    cfg["engine"]["integrator"]["class"] = integrator
    cfg["engine"]["subcycles"] = subcycles
    if integrator == "VelocityVerlet":
        cfg["engine"]["integrator"]["settings"] = {}
    elif settings_seed is not None:
        # a seed left in the integrator settings of the input file must not override the job's stream
        cfg["engine"]["integrator"]["settings"]["seed"] = settings_seed
    shutil.copy(os.path.join(common.REPO, "examples", "turtlemd", "double_well", "orderp.py"), scratch)
    cfg["orderparameter"]["module"] = os.path.join(scratch, "orderp.py")
    import contextlib
    import io
    with contextlib.redirect_stdout(io.StringIO()):      # the engine prints a TODO note when constructed
        eng = create_engine(cfg)
    eng.order_function = create_orderparameter(cfg)
    eng.rgen = np.random.default_rng(seed)
    wdir = os.path.join(scratch, "worker0")
    os.makedirs(wdir, exist_ok=True)
    eng.exe_dir = wdir

    def write_conf(path, x, v):
        write_xyz_trajectory(path, np.array([[x, 0.0, 0.0]]), np.array([[v, 0.0, 0.0]]), ["Z"],
                             None, append=False)

    def read_frames(path):
        from infretis.classes.engines.engineparts import read_xyz_file, convert_snapshot
        out = []
        for snap in read_xyz_file(path):
            box, xyz, vel, names = convert_snapshot(snap)
            out.append({"pos": xyz, "vel": vel, "box": box})
        return out

    return eng, write_conf, read_frames, lambda fr, sign: float(fr["pos"][0, 0])


def build_ase(scratch, integrator="velocityverlet", seed=1, subcycles=1, lj_sigma=0.0):
    import tomli
    from infretis.classes.engines.factory import create_engine
    from infretis.classes.orderparameter import create_orderparameter
    h2 = os.path.join(common.REPO, "examples", "ase", "H2")
    with open(os.path.join(h2, "infretis0.toml"), "rb") as fh:
        cfg = tomli.load(fh)
    cfg["engine"]["calculator_settings"]["module"] = os.path.join(h2, "H2-calc.py")
    cfg["orderparameter"]["periodic"] = False
    cfg["engine"]["subcycles"] = subcycles
    cfg["engine"]["timestep"] = 1.0
    cfg["engine"]["integrator"] = integrator
    cfg["engine"]["calculator_settings"]["sigma"] = lj_sigma     # 0.0: free flight; 3.0: the example's LJ forces
    cfg["engine"]["exe_path"] = scratch
    import warnings
    warnings.filterwarnings("ignore", category=FutureWarning)
    eng = create_engine(cfg)
    eng.order_function = create_orderparameter(cfg)
    eng.rgen = np.random.default_rng(seed)
    wdir = os.path.join(scratch, "worker0")
    os.makedirs(wdir, exist_ok=True)
    eng.exe_dir = wdir

    def write_conf(path, x, v):
        import ase
        atoms = ase.atoms.Atoms("H2")
        pos = np.zeros((2, 3))
        pos[0, 0] = x
        vel = np.zeros((2, 3))
        vel[0, 0] = v * ase.units.Angstrom / ase.units.fs
        atoms.set_positions(pos)
        atoms.set_velocities(vel)
        atoms.set_cell([50.0, 50.0, 50.0])
        atoms.write(path)

    def read_frames(path):
        from ase.io.trajectory import Trajectory
        out = []
        tr = Trajectory(path)
        for at in tr:
            out.append({"pos": at.positions.copy(), "vel": at.get_velocities(), "box": at.cell.diagonal()})
        tr.close()
        return out

    def order(fr, sign):
        d = fr["pos"][1] - fr["pos"][0]
        return float(np.sqrt(np.dot(d, d)))

    return eng, write_conf, read_frames, order


def build_lattice(scratch, seed=1):
    from infretis.core.core import create_external
    from infretis.classes.orderparameter import create_orderparameter
    eng = create_external({"class": "LatticeEngine", "module": SC.LATTICE_MODULE, "wall": -3,
                           "timestep": 1.0, "subcycles": 1}, "engine", ["step"])
    eng.order_function = create_orderparameter({"orderparameter": {"class": "Position", "index": [0, 0],
                                                                    "periodic": False}})
    eng.rgen = np.random.default_rng(seed)
    wdir = os.path.join(scratch, "worker0")
    os.makedirs(wdir, exist_ok=True)
    eng.exe_dir = wdir

    def write_conf(path, x, v):
        with open(path, "w") as fh:
            fh.write(f"{int(x)}\n")

    def read_frames(path):
        with open(path) as fh:
            return [{"pos": np.array([[float(t)]]), "vel": np.zeros((1, 1)), "box": None} for t in fh.read().split()]

    return eng, write_conf, read_frames, lambda fr, sign: float(fr["pos"][0, 0])
