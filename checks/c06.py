"""C06 - same seed, same run: determinism and restart equivalence."""
import filecmp
import os
import random
import shutil

from checks import sched_common as C
from sim import monitors as M
from sim import scenario as SC
from sim import sched_sim as SS

PROP = "C06"
LEVEL = "fault_enumeration"
RULE = ("Each case compares histories of the real scheduler for one scenario and seed: (A) one worker: "
        "N steps straight vs. a chain of stop/restart incarnations (every single split 0<k<N is "
        "enumerated over the case index, chains are sampled) - infretis_data.txt and restart.toml "
        "(minus current.restarted_from) must be byte-identical; with allowmaxlength=false two chains "
        "sharing their first split are compared instead; (B) several workers: crash between steps, the "
        "restart must re-issue exactly the (ensemble, path) jobs recorded under current.locked == the "
        "jobs in flight at the crash; (C) the same case twice gives identical files. Distinct = "
        "(mode, workers, moves, split points, seed class); non-trivial = at least one restart or crash.")
ASSUMPTIONS = [
    "scope as stated in the property: order parameters representable at 6 decimals (lattice: integers; "
    "TurtleMD runs compare restart chains), 'ld' marker loss kept out by allowmaxlength=true or by "
    "comparing chains sharing their first split",
    "restarted_from is removed before comparing restart.toml, as the repository's own test does",
]
REAL, STUB = C.REAL, C.STUB
RUN_TIMEOUT = 900


def budget(tier):
    return 100 if tier == "quick" else 1800


def make_case(seed, i, tier):
    rng = random.Random(seed)
    mode = rng.choice(["A", "A", "A", "B", "B", "C"])
    N = 12 if tier == "quick" else rng.choice([12, 24, 40])
    prof = {"steps": N, "maxlength": rng.choice([20, 40, 200]),
            "config_seed": rng.choice([0, 1, 3, rng.randrange(2, 2**31)]), "screen": 0,
            "pattern": False}
    if mode == "A":
        prof["workers"] = 1
        prof["allowmaxlength"] = rng.random() < 0.6
    elif mode == "B":
        prof["workers_choices"] = [2, 3, 4, 99]
        prof["n_intf_choices"] = [3, 4, 5, 6]
    if rng.random() < 0.18:
        prof.update(engine="turtlemd", maxlength=2000, steps=8)
        N = 8
        if mode == "A":
            # half with an order parameter representable at the six decimals of the order files, half
            # with the example's real-valued one (what a restart reads back is then a rounded value)
            prof.update(rounded_op=rng.random() < 0.5, allowmaxlength=True, workers=1)
            if not prof["rounded_op"] and rng.random() < 0.25:
                prof["grid_op"] = True
    scn = SC.gen_scenario(rng, prof)
    if scn["engine"] == "turtlemd" and mode == "A" and scn.get("rounded_op") and rng.random() < 0.7:
        # the example's own move mix: many wire-fencing ensembles give large weights and therefore very
        # small probabilities / accumulated fractions
        scn["moves"] = ["sh", "sh", "wf", "wf", "wf", "wf", "wf", "wf"]
        scn["n_jumps"] = 6
    if mode == "B" and scn["workers"] < 2:
        mode = "A"
        scn["workers"] = 1
    if mode == "A" and scn["engine"] == "turtlemd":
        # real-valued weights: very small accumulated fractions exist right after the start
        cuts = [rng.choice([1, 1, 2, 2, 3, 5])] if rng.random() < 0.7 else sorted(
            set(rng.randrange(1, N) for _ in range(2)))
        case_plan = {"cuts": cuts}
    elif mode == "A":
        # enumerate single splits by case index, sample longer chains
        if rng.random() < 0.6:
            cuts = [1 + (i % (N - 1))]
        else:
            cuts = sorted(set(rng.randrange(1, N) for _ in range(rng.choice([2, 3, 4]))))
        case_plan = {"cuts": cuts}
    elif mode == "B":
        ncr = rng.choice([1, 1, 2])
        case_plan = {"crashes": [rng.randrange(0, N - scn["workers"]) for _ in range(ncr)]}
    else:
        case_plan = {}
    return {"seed": seed, "scn": scn, "props": [PROP], "mode": mode, "cp": case_plan, "N": N}


class ReissueMonitor(SS.Monitor):
    """Mode B: the jobs issued first after a restart are exactly those recorded as locked."""

    def on_attach(self, state, md_items):
        self.want = [(tuple(int(e) - state._offset for e in l[0]), tuple(str(p) for p in l[1]))
                     for l in state.locked0]
        self.got = []
        self.n = len(self.want)

    def on_submit(self, jid, md, info):
        if len(self.got) < self.n:
            self.got.append((tuple(info["ens"]), tuple(str(p) for p in info["paths"])))
            if len(self.got) == self.n:
                if sorted(self.got) != sorted(self.want):
                    self.sim.violate("C06", "reissue_mismatch",
                                     f"restart re-issued {self.got}, restart file lists {self.want}")
                self.sim.k.probe("reissue_checked")
        if jid == 1:
            self.sim.k.log(ev="reissue_plan", want=[list(map(list, w)) for w in self.want])


class RoundTripProbe(SS.Monitor):
    """Search guidance only (never a verdict): remembers the steps after which some value written to
    restart.toml does not read back to exactly the in-memory value, so that a stop can be placed there."""

    def __init__(self):
        self.steps = []

    def post_treat(self, md):
        import numpy as np
        st = self.sim.state
        cur = st.config["current"]
        bad = False
        for key, strs in cur.get("frac", {}).items():
            mem = st.traj_data.get(int(key))
            if mem is None:
                continue
            back = np.array(strs, dtype="longdouble")
            if not np.array_equal(back, np.asarray(mem["frac"], dtype="longdouble")):
                bad = True
        if bad:
            self.steps.append(int(st.cstep))
            self.sim.k.probe("inexact_restart_value_seen")

    def summary(self):
        return {"inexact_steps": self.steps[:20]}


class RoundingProbe(SS.Monitor):
    """Site classification only (never a verdict): the steps after which a live path holds a frame whose
    order parameter changes side of an interface when it is rounded to the six decimals of order.txt -
    a restart placed there reads a path that is classified differently from the one in memory."""

    def __init__(self):
        self.steps = []

    def post_treat(self, md):
        st = self.sim.state
        lams = [float(x) for x in st.config["simulation"]["interfaces"]]
        cap = st.config["simulation"]["tis_set"].get("interface_cap")
        if cap is not None:
            lams.append(float(cap))
        for traj in st._trajs[:-1]:
            if getattr(traj, "path_number", None) is None:
                continue
            for pp in traj.phasepoints:
                x = float(pp.order[0])
                r = round(x, 6)
                if x != r and any(min(x, r) <= lam <= max(x, r) for lam in lams):
                    self.steps.append(int(st.cstep))
                    self.sim.k.probe("order_within_rounding_of_an_interface")
                    return

    def summary(self):
        return {"rounding_steps": self.steps[:50]}


def _mon(case, inc):
    return [ReissueMonitor(), RoundTripProbe(), RoundingProbe()]


def _strip(path):
    import tomli
    with open(path, "rb") as fh:
        cfg = tomli.load(fh)
    cfg["current"].pop("restarted_from", None)
    return cfg


def _compare(dirA, dirB, label, case, res_violations, site=None):
    def _dname(d):
        try:
            return os.path.basename(_strip(os.path.join(d, "restart.toml"))["output"].get("data_file", "infretis_data.txt"))
        except Exception:       # noqa
            return "infretis_data.txt"
    for item in ("data file",):
        # the file each run wrote (infretis_data_1.txt when the directory already held an earlier run's file)
        a, b = os.path.join(dirA, _dname(dirA)), os.path.join(dirB, _dname(dirB))
        item = os.path.basename(a)
        if not (os.path.isfile(a) and os.path.isfile(b)) or not filecmp.cmp(a, b, shallow=False):
            la = open(a).read().splitlines() if os.path.isfile(a) else []
            lb = open(b).read().splitlines() if os.path.isfile(b) else []
            first = next((i for i, (x, y) in enumerate(zip(la, lb)) if x != y), min(len(la), len(lb)))
            res_violations.append(C._viol(
                "C06", "data_file_differs",
                f"{label}: {item} differs from line {first}: "
                f"{la[first][:80] if first < len(la) else '<eof>'!r} vs "
                f"{lb[first][:80] if first < len(lb) else '<eof>'!r}", None, case,
                site=site or ("seed0" if case["scn"]["config_seed"] == 0 else "seed_nonzero")))
            return
    ca, cb = _strip(os.path.join(dirA, "restart.toml")), _strip(os.path.join(dirB, "restart.toml"))
    if ca != cb:
        diff = [k for k in set(ca["current"]) | set(cb["current"]) if ca["current"].get(k) != cb["current"].get(k)]
        res_violations.append(C._viol("C06", "restart_file_differs",
                                      f"{label}: restart.toml differs in current.{sorted(diff)}",
                                      None, case,
                                      site=site or ("seed0" if case["scn"]["config_seed"] == 0 else "seed_nonzero")))


def _hist(case, plan):
    c = dict(case)
    c["scn"] = dict(case["scn"], plan=plan)
    return c


def run(case):
    mode, N = case["mode"], case["N"]
    scn = case["scn"]
    dirs = []
    try:
        if mode == "A":
            cuts = case["cp"]["cuts"]
            chain = [{"steps": k} for k in cuts] + [{"steps": N}]
            if scn["allowmaxlength"]:
                ref_plan = [{"steps": N}]
            else:
                ref_plan = [{"steps": cuts[0]}, {"steps": N}]
            rA = SS.run_case(_hist(case, ref_plan), _mon, keep_dir=True)
            dirs.append(rA["rundir"])
            # guided search: if the reference run saw a value that does not survive the restart file
            # exactly, stop right after that step (the verdict stays byte equality of the outputs)
            hot = [s_ for m in (rA.get("mon") or {}).values()
                   for s_ in (m.get("RoundTripProbe") or {}).get("inexact_steps", []) if 0 < s_ < N]
            if hot and case.get("decisions") is None and not case.get("no_guidance"):
                first = min(hot)
                if scn["allowmaxlength"]:
                    cuts = [first]
                    chain = [{"steps": first}, {"steps": N}]
                elif first > cuts[0]:
                    cuts = [cuts[0], first]
                    chain = [{"steps": k} for k in cuts] + [{"steps": N}]
                case["cp"]["cuts"] = cuts
            rB = SS.run_case(_hist(case, chain), _mon, keep_dir=True)
            dirs.append(rB["rundir"])
            viol = rA["violations"] + rB["violations"]
            if not any(ev["ev"] == "died" for ev in rA["events"] + rB["events"]):
                sens = set(s_ for m in (rA.get("mon") or {}).values()
                           for s_ in (m.get("RoundingProbe") or {}).get("rounding_steps", []))
                site = "restart_at_order_within_rounding_of_interface" if sens & set(cuts) else None
                _compare(rA["rundir"], rB["rundir"], f"straight vs chain {cuts} (N={N})", case, viol, site=site)
            res = rB
            res["violations"] = viol
            sig = ("A", scn["workers"], tuple(scn["moves"]), tuple(cuts), scn["config_seed"] == 0,
                   scn["allowmaxlength"])
        elif mode == "B":
            plan = [{"steps": N, "crash": {"kind": "exit", "after": j}} for j in case["cp"]["crashes"]]
            plan.append({"steps": N})
            res = SS.run_case(_hist(case, plan), _mon, history_checks=_hist_b)
            res.pop("_b", None)
            sig = ("B", scn["workers"], tuple(scn["moves"]), tuple(case["cp"]["crashes"]),
                   tuple(res["sigs"]))
        else:
            plan = [{"steps": N}]
            rA = SS.run_case(_hist(case, plan), _mon, keep_dir=True)
            dirs.append(rA["rundir"])
            rB = SS.run_case(_hist(case, plan), _mon, keep_dir=True)
            dirs.append(rB["rundir"])
            viol = rA["violations"] + rB["violations"]
            _compare(rA["rundir"], rB["rundir"], "same case twice", case, viol)
            if rA["digest"] != rB["digest"]:
                viol.append(C._viol("C06", "event_log_differs", "same case twice: event logs differ",
                                    None, case))
            res = rB
            res["violations"] = viol
            sig = ("C", scn["workers"], tuple(scn["moves"]), tuple(res["sigs"]))
        # an incarnation that dies of its own exception (not injected) breaks restart equivalence
        pool = (rA["events"] + rB["events"]) if mode in ("A", "C") else res["events"]
        for ev in pool:
            if ev["ev"] == "died" and "injected worker failure" not in ev.get("msg", ""):
                dsite = None
                if mode == "A" and ev.get("inc", 0) > 0:
                    sens = set(s_ for m in (rA.get("mon") or {}).values()
                               for s_ in (m.get("RoundingProbe") or {}).get("rounding_steps", []))
                    if sens & set(cuts):
                        dsite = "restart_at_order_within_rounding_of_interface"
                res["violations"].append(C._viol(
                    "C06", "restarted_run_died" if ev.get("inc", 0) > 0 else "run_died",
                    f"incarnation {ev.get('inc')} died: {ev.get('exc')}: {ev.get('msg', '')[:200]} at {ev.get('tb')}",
                    ev.get("inc"), case, **({"site": dsite} if dsite else {})))
                break
        out = C.result_from(res, _hist(case, case["scn"].get("plan", [])),
                            lambda r, c: mode in ("A", "B"))
        out["sig"] = str(sig)
        out["sample"]["mode"] = mode
        out["sample"]["plan"] = case["cp"]
        return out
    finally:
        for d in dirs:
            shutil.rmtree(os.path.dirname(d), ignore_errors=True)


def _hist_b(case, inc, spec, code, events, end, rundir, res):
    """Mode B: model of in-flight jobs at the crash == locked list on disk == re-issued set."""
    out = []
    st = res.setdefault("_b", {"inflight": None})
    if st["inflight"] is not None:
        plan_ev = [ev for ev in events if ev["ev"] == "reissue_plan"]
        want = sorted((tuple(j[0]), tuple(str(p) for p in j[1])) for j in st["inflight"])
        if plan_ev:
            got = sorted((tuple(w[0]), tuple(w[1])) for w in plan_ev[0]["want"])
            if got != want:
                out.append(C._viol("C06", "locked_not_inflight",
                                   f"restart file lists {got} but jobs in flight when it was written were {want}",
                                   inc, case))
    # in-flight set at the moment the restart file was last written (end of a treat_output)
    sub = {}
    recorded = None
    for ev in events:
        if ev["ev"] == "submit":
            sub[ev["jid"]] = (ev["ens"], ev["paths"])
        elif ev["ev"] == "complete":
            sub.pop(ev["jid"], None)
        elif ev["ev"] == "treated":
            recorded = list(sub.values())
    if recorded is not None:
        st["last_recorded"] = recorded
    st["inflight"] = st.get("last_recorded") if code == SS.EXIT_CRASH else None
    return out


def shrink_candidates(case):
    N = case["N"]
    if case["mode"] == "A":
        cuts = case["cp"]["cuts"]
        for i in range(len(cuts)):
            if len(cuts) > 1:
                yield dict(case, cp={"cuts": cuts[:i] + cuts[i + 1:]})
        if N > 4:
            n2 = max(4, N // 2)
            yield dict(case, N=n2, cp={"cuts": sorted(set(min(c, n2 - 1) for c in cuts))})
    if case["mode"] == "B":
        cr = case["cp"]["crashes"]
        for i in range(len(cr)):
            if len(cr) > 1:
                yield dict(case, cp={"crashes": cr[:i] + cr[i + 1:]})
            if cr[i] > 0:
                yield dict(case, cp={"crashes": cr[:i] + [cr[i] // 2] + cr[i + 1:]})
    for cand in C.shrink_candidates(dict(case, scn=dict(case["scn"], plan=[{"steps": N}]))):
        s = cand["scn"]
        if case["mode"] == "B" and s["workers"] < 2:
            continue
        if s["plan"] != [{"steps": N}]:
            continue
        yield cand
