"""C17 part (b): the real aiorunner / future_list under the virtual-time event loop."""
import random
import traceback

from sim import aio_sim as A
from sim.kernel import Kernel, hash64


class UnitError(ValueError):
    pass


def gen_workload(rng):
    nw = rng.choice([1, 1, 2, 3, 4, 6])
    nunits = rng.choice([0, 1, 2, 3, 5, 8, 13, 20, 40])
    durmodel = rng.choice(["zero", "tiny", "mixed", "long", "equal"])
    units = []
    for i in range(nunits):
        if durmodel == "zero":
            d = 0.0
        elif durmodel == "tiny":
            d = rng.random() * 0.03
        elif durmodel == "equal":
            d = 0.05
        elif durmodel == "long":
            d = rng.choice([0.5, 3.0, 6.0, 12.0])     # longer than every timeout in the module
        else:
            d = rng.choice([0.0, 0.001, 0.02, 0.05, 0.1, 0.7, 5.5])
        units.append({"id": i, "dur": d, "fail": rng.random() < 0.15})
    pattern = rng.choice(["scheduler", "burst", "random"])
    if units and rng.random() < 0.15:
        units[rng.randrange(len(units))]["kills_pool"] = True      # its worker process dies
    return {"n_workers": nw, "units": units, "pattern": pattern, "stall_p": rng.choice([0.0, 0.0, 0.1, 0.3]),
            "stop_early": rng.random() < 0.3}


def run_workload(case):
    """Returns (violations, info)."""
    wl = case["wl"]
    k = Kernel(case["seed"], case.get("decisions"))
    ak = A.AioKernel(k, stall_p=wl["stall_p"])
    units = {u["id"]: u for u in wl["units"]}
    executed = []
    viol = []

    def V(vclass, msg):
        viol.append({"prop": "C17", "class": vclass, "msg": msg[:500], "site": "runner", "inc": 0,
                     "step": None, "known": False})

    def task_f(unit):
        executed.append(unit["id"])
        if unit["fail"]:
            raise UnitError(f"unit {unit['id']} failed")
        return {"id": unit["id"], "val": unit["id"] * 7 + 1}

    AR, rec = A.install(ak, lambda unit: units[unit["id"]]["dur"] if unit else 0.0)
    info = {"executed": 0, "consumed": 0, "t_stop": None}
    try:
        runner = AR.aiorunner({}, wl["n_workers"])
        runner.set_task(task_f)
        runner.start()
        futures = AR.future_list()
        submitted = {}           # id(fut) -> unit id
        consumed = []            # unit ids in consumption order
        pool_failed = set()

        def pool_broken():
            return any(ex.broken for ex in rec.executors)
        pending = list(wl["units"])

        def submit_one():
            u = pending.pop(0)
            fut = runner.submit_work(dict(u))
            if id(fut) in submitted:
                V("future_reused", f"submit_work returned the same future twice (unit {u['id']})")
            submitted[id(fut)] = (u["id"], fut)
            futures.add(fut)

        def consume_one():
            rec.main_polling = True
            try:
                fut = futures.as_completed()
            finally:
                rec.main_polling = False
            if fut is None:
                return False
            if id(fut) not in submitted:
                V("unknown_future", "as_completed returned a future that was never submitted")
                return True
            uid = submitted[id(fut)][0]
            if uid in consumed:
                V("future_handed_out_twice", f"unit {uid} handed out twice by as_completed")
            consumed.append(uid)
            if not asyncio_done(fut):
                V("unfinished_future_returned", f"unit {uid}: as_completed returned a pending future")
                return True
            u = units[uid]
            from concurrent.futures.process import BrokenProcessPool
            try:
                res = fut.result()
                if u["fail"] or u.get("kills_pool"):
                    V("exception_lost", f"unit {uid} raised but its future holds result {res}")
                elif res != {"id": uid, "val": uid * 7 + 1}:
                    V("wrong_result", f"unit {uid}: future holds {res}")
            except UnitError as exc:
                if not u["fail"] or f"unit {uid} " not in str(exc):
                    V("wrong_exception", f"unit {uid}: future raised {exc!r}")
            except BrokenProcessPool:
                pool_failed.add(uid)
                if not pool_broken():
                    V("wrong_exception", f"unit {uid}: BrokenProcessPool but no pool process died")
            return True

        pat = wl["pattern"]
        total = len(pending)
        if pat == "scheduler":
            for _ in range(min(wl["n_workers"], len(pending))):
                submit_one()
            while len(consumed) < total - (len(pending) if wl["stop_early"] and False else 0):
                if not consume_one():
                    break
                if pending:
                    submit_one()
        elif pat == "burst":
            while pending:
                for _ in range(min(len(pending), k.choose("burst", 5) + 1)):
                    submit_one()
                ncons = k.choose("ncons", 4)
                for _ in range(ncons):
                    if len(consumed) < len(submitted):
                        consume_one()
        else:
            while pending or len(consumed) < len(submitted):
                if pending and (len(consumed) >= len(submitted) or k.flip("do_submit", 0.5)):
                    submit_one()
                elif len(consumed) < len(submitted):
                    if wl["stop_early"] and not pending and k.flip("leave", 0.3):
                        break
                    consume_one()
        t_before_stop = k.now
        left = [u for u in wl["units"] if u["id"] in [x for x, _ in submitted.values()] and u["id"] not in executed]
        stop_bound = sum(u["dur"] for u in left) + 0.05 * (len(left) + 2) + 1.0
        runner.stop()
        info["t_stop"] = k.now - t_before_stop
        # drain what the driver left unconsumed (stop() must have finished every submitted unit)
        while len(consumed) < len(submitted):
            if not consume_one():
                break
        # ---------------- final oracle
        for uid, fut in submitted.values():
            n = executed.count(uid)
            lost_with_pool = uid in pool_failed or units[uid].get("kills_pool")
            if n != (0 if lost_with_pool else 1):
                V("unit_not_executed_once", f"unit {uid} executed {n} times (lost with the pool: {bool(lost_with_pool)})")
            kinds = rec.completions.get(id(fut), [])
            if len(kinds) != 1:
                V("future_completed_not_once", f"unit {uid}: completions {kinds}")
            elif (kinds[0] == "exception") != bool(units[uid]["fail"] or lost_with_pool):
                V("wrong_completion_kind", f"unit {uid}: {kinds[0]}, fail={units[uid]['fail']}")
        if sorted(consumed) != sorted(u for u, _ in submitted.values()):
            V("not_all_results_delivered", f"consumed {sorted(consumed)} of {sorted(u for u, _ in submitted.values())}")
        for t in runner._tasks or []:
            if not t.done():
                V("worker_task_alive_after_stop", "a worker task is still pending after stop()")
            elif t.cancelled() or t.exception() is not None:
                V("worker_task_died", f"worker task ended with {t.exception()!r}")
        bg = rec.loops[0] if rec.loops else None
        if bg is not None:
            import asyncio
            if len(asyncio.all_tasks(bg)) > 0:
                V("tasks_left_after_stop", f"{len(asyncio.all_tasks(bg))} tasks left on the background loop")
            if not bg.finished:
                V("thread_not_joined", "background loop still running after stop()")
        if info["t_stop"] is not None and info["t_stop"] > stop_bound:
            V("stop_too_slow", f"stop() took {info['t_stop']:.3f} virtual s with {len(left)} unit(s) left; "
              f"bound {stop_bound:.3f}")
        for ex in rec.executors:
            if ex.max_running > wl["n_workers"]:
                V("too_many_concurrent_units", f"{ex.max_running} units ran at once with {wl['n_workers']} workers")
        info.update(executed=len(executed), consumed=len(consumed))
    except A.Hang as exc:
        V("runner_hangs", str(exc))
    except Exception as exc:
        V("runner_raised", f"{type(exc).__name__}: {exc} :: {traceback.format_exc()[-600:]}")
    info["sig"] = hash64("".join(ak.sig[:4000]))
    info["ksteps"] = ak.steps
    info["sim_time"] = k.now
    info["faults"] = dict(k.fault_counts)
    info["trace"] = k.trace
    info["overlap"] = any(ex.max_running > 1 for ex in rec.executors)
    return viol, info


def asyncio_done(fut):
    import asyncio
    return asyncio.Future.done(fut)


# ======================================================================================
# part (c): full stack - real scheduler + real aiorunner + simulated executor, in one process
# ======================================================================================
def _fullstack_child(case, inc, spec, rundir, outpath):
    import json
    import os
    import pickle
    from sim import sched_sim as SS
    fd = os.open(outpath, os.O_WRONLY | os.O_CREAT | os.O_TRUNC, 0o644)
    err = os.open(outpath + ".stderr", os.O_WRONLY | os.O_CREAT | os.O_TRUNC, 0o644)
    os.dup2(err, 2)
    os.dup2(err, 1)
    k = Kernel(hash64(case["seed"], "fs", inc), case.get("decisions"), prefix=f"i{inc}.")
    ak = A.AioKernel(k, stall_p=case.get("stall_p", 0.0), max_steps=3_000_000)
    out = {"hang": None, "died": None, "executed": 0, "submitted": 0}
    os.chdir(rundir)
    try:
        import infretis.classes.repex as R
        import infretis.core.tis as T
        import infretis.classes.engines.enginebase as EB
        from infretis.setup import setup_config
        from infretis.scheduler import scheduler
        model = case["scn"]["order_model"]

        def durations(unit):
            if model in ("fifo", "equal"):
                return 0.05
            return k.uniform("dur", 0.0, 0.4)

        AR, rec = A.install(ak, durations)
        rec.main_polling = True
        clock = SS._ClockShim(k)
        R.time = clock
        T.time = clock
        EB.os = SS._OsShim(getpid=lambda: 3141592)
        real_run_md = T.run_md

        def run_md_boundary(md):
            out["executed"] += 1
            return pickle.loads(pickle.dumps(real_run_md(pickle.loads(pickle.dumps(md)))))

        import infretis.setup as SU
        SU.run_md = run_md_boundary
        orig_submit = AR.aiorunner.submit_work

        def counting_submit(self, unit):
            out["submitted"] += 1
            return orig_submit(self, unit)

        AR.aiorunner.submit_work = counting_submit
        config = setup_config(spec.get("inp", "infretis.toml"))
        if config is None:
            out["setup_none"] = True
        else:
            out["start_cstep"] = int(config["current"]["cstep"])
            scheduler(config)
            out["finished"] = True
            out["cstep"] = int(config["current"]["cstep"])
        out["max_running"] = max([ex.max_running for ex in rec.executors] + [0])
        bg = rec.loops[0] if rec.loops else None
        out["bg_finished"] = bool(bg.finished) if bg is not None else None
    except A.Hang as exc:
        out["hang"] = str(exc)
    except BaseException as exc:  # noqa
        out["died"] = f"{type(exc).__name__}: {exc} :: {traceback.format_exc()[-700:]}"
    out.update(sim_time=k.now, ksteps=ak.steps, trace=k.trace, sig=hash64("".join(ak.sig[:20000])),
               faults=k.fault_counts)
    os.write(fd, json.dumps(out, default=str).encode())
    os.close(fd)
    os._exit(0)


def run_fullstack(case):
    import json
    import os
    import shutil
    from sim import scenario as SC
    from sim import sched_sim as SS
    from sim.common import scratch_root
    from checks import sched_common as C
    scn = case["scn"]
    root = os.path.join(scratch_root(), f"fs-{case['seed']}-{os.getpid()}")
    rundir = os.path.join(root, "w")
    os.makedirs(rundir)
    viol, infos = [], []

    def V(vclass, msg):
        viol.append({"prop": "C17", "class": vclass, "msg": msg[:600], "site": "fullstack", "inc": None,
                     "step": None, "known": False})
    try:
        SC.build_rundir(scn, rundir)
        done = 0
        for inc, spec in enumerate(scn["plan"]):
            inp = "infretis.toml" if inc == 0 else "restart.toml"
            SS.set_steps(os.path.join(rundir, inp), spec["steps"])
            outpath = os.path.join(root, f"fs{inc}.json")
            pid = os.fork()
            if pid == 0:
                try:
                    from sim.common import die_with_parent
                    die_with_parent()
                    _fullstack_child(case, inc, dict(spec, inp=inp), rundir, outpath)
                finally:
                    os._exit(99)
            _, status = os.waitpid(pid, 0)
            with open(outpath) as fh:
                txt = fh.read()
            if not txt:
                raise RuntimeError(f"full-stack child {inc} left no result (exit {status})")
            o = json.loads(txt)
            infos.append(o)
            if o["hang"]:
                V("runner_hangs", f"incarnation {inc}: {o['hang']}")
                break
            if o["died"]:
                V("main_died", f"incarnation {inc}: {o['died']}")
                break
            cfg = C.read_restart(rundir)
            tgt = spec["steps"]
            if o.get("setup_none"):
                if cfg not in (None, "UNREADABLE") and tgt > int(cfg["current"]["cstep"]):
                    V("restart_refused", f"incarnation {inc}: steps {tgt} > cstep {cfg['current']['cstep']}")
                continue
            want = max(0, tgt - o["start_cstep"])
            if o["executed"] != o["submitted"]:
                V("unit_not_executed_once", f"incarnation {inc}: {o['submitted']} units submitted, "
                  f"{o['executed']} executions")
            if o["submitted"] != want:
                V("wrong_number_of_moves", f"incarnation {inc}: {o['submitted']} jobs for {want} requested steps")
            if cfg in (None, "UNREADABLE") or int(cfg["current"]["cstep"]) != max(tgt, o["start_cstep"]):
                V("final_cstep_not_steps", f"incarnation {inc}: restart file cstep "
                  f"{None if cfg in (None, 'UNREADABLE') else cfg['current']['cstep']} for steps {tgt}")
            elif cfg["current"].get("locked"):
                V("finished_with_locked", f"incarnation {inc}: locked {cfg['current']['locked']}")
            if o["max_running"] > scn["workers"]:
                V("too_many_concurrent_units", f"{o['max_running']} > {scn['workers']} workers")
            if not o["bg_finished"]:
                V("thread_not_joined", f"incarnation {inc}: background loop alive after runner.stop()")
        return viol, infos
    finally:
        shutil.rmtree(root, ignore_errors=True)
