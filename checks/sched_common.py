"""Helpers shared by the scheduler-level (Layer A) checks."""
import copy
import os
import random

from sim import sched_sim as SS
from sim import scenario as SC

REAL = [
    "infretis.scheduler.scheduler", "infretis.setup.setup_config/setup_internal",
    "infretis.classes.repex.REPEX_state (pick, lock, treat_output, permanents, write_toml, data file)",
    "infretis.core.tis.run_md/select_shoot/shoot/wire_fencing/retis_swap_zero",
    "infretis.classes.path.Path/load_path", "infretis.classes.formatter.PathStorage",
    "infretis.classes.engines.factory.assign_engines/create_engines",
    "infretis.classes.engines.enginebase.EngineBase.propagate/add_to_path",
    "real file system (tmpfs scratch directory)", "real fork() per main-process incarnation",
]
STUB = [
    "aiorunner/future_list replaced by SimRunner/SimFutures (pickle round-trip in and out, job body "
    "run in-process, completion order and durations decided by the kernel)",
    "MD physics: lattice random walk engine loaded through the engine plug-in interface",
    "wall clock (time module in repex/tis namespaces), os.getpid in enginebase",
]


def read_restart(rundir):
    import tomli
    path = os.path.join(rundir, "restart.toml")
    if not os.path.isfile(path):
        return None
    try:
        with open(path, "rb") as fh:
            return tomli.load(fh)
    except Exception:
        return "UNREADABLE"


def gen_plan(rng, scn, kind):
    """Plans of incarnations. Each spec: steps (target written by the user), crash spec."""
    steps, w = scn["steps"], scn["workers"]
    if kind == "single":
        return [{"steps": steps}]
    if kind == "clean_chain":
        n = rng.choice([1, 1, 2, 3])
        cuts = sorted(set(rng.randrange(max(1, w), steps) for _ in range(n))) if steps > max(1, w) else []
        plan, first = [], True
        for c in cuts + [steps]:
            plan.append({"steps": c})
        return plan
    if kind == "crash_chain":
        n = rng.choice([1, 1, 2])
        plan = []
        for _ in range(n):
            plan.append({"steps": steps, "crash": {"kind": rng.choice(["exit", "exit", "worker_exc"]),
                                                   "after": rng.randrange(0, max(1, steps - 1))}})
        plan.append({"steps": steps})
        return plan
    if kind == "mixed":
        plan = []
        done = 0
        for _ in range(rng.choice([2, 3, 4])):
            tgt = min(steps, done + rng.randrange(1, max(2, steps // 2)))
            if rng.random() < 0.5:
                plan.append({"steps": steps, "crash": {"kind": "exit", "after": rng.randrange(0, 6)}})
            else:
                plan.append({"steps": max(tgt, w)})
                done = max(tgt, w)
        plan.append({"steps": steps})
        return plan
    if kind == "tail":   # restarts whose remaining step count is small relative to workers
        k = rng.randrange(w, steps + 1)
        plan = [{"steps": k}]
        if rng.random() < 0.4:
            # killed within the last few steps of a run (fewer jobs in flight than workers), then continued
            # with a larger step count
            plan = [{"steps": k, "crash": {"kind": "exit", "after": max(0, k - rng.randrange(1, w + 2))}}]
        if rng.random() < 0.4:
            plan.append({"steps": k})            # restart without raising steps
        if rng.random() < 0.3:
            plan.append({"steps": k})
        extra = rng.choice([1, 1, 2, w, w + 1, 2 * w])
        plan.append({"steps": k + extra})
        if rng.random() < 0.5:
            plan.append({"steps": k + extra + rng.choice([1, w, 2 * w + 1])})
        return plan
    raise ValueError(kind)


def result_from(res, case, nontrivial_rule=None):
    scn = case["scn"]
    nontriv = bool(res["probes"].get("overlap") or res["faults"] or len(scn["plan"]) > 1)
    if nontrivial_rule is not None:
        nontriv = nontrivial_rule(res, case)
    sample = {
        "seed": case["seed"],
        "scenario": {k: scn[k] for k in ("n_intf", "moves", "cap", "workers", "steps", "order_model",
                                          "config_seed", "maxlength", "plan")},
        "incarnations": res["incs"],
        "history": [
            {k: ev[k] for k in ("ev", "inc", "jid", "ens", "busy", "status", "cstep", "pin") if k in ev}
            for ev in res["events"] if ev["ev"] in ("submit", "complete", "treated", "crash", "died",
                                                    "setup_none", "finished")][:40],
    }
    aborted = any(ev["ev"] == "died" for ev in res["events"])
    return {
        "violations": res["violations"], "trace": res["trace"], "digest": res["digest"],
        "probes": res["probes"], "faults": res["faults"], "stats": res["stats"],
        "sim_time": res["sim_time"], "ksteps": res["ksteps"],
        "sig": str(tuple(res["sigs"])) + str(tuple((i["exit"], i["completed"]) for i in res["incs"])),
        "nontrivial": nontriv, "sample": sample, "aborted": aborted,
        "incs": res["incs"], "mon": res.get("mon"),
    }


def shrink_candidates(case):
    """Simpler scenarios: fewer incarnations, steps, workers, ensembles; plain moves; defaults."""
    scn = case["scn"]

    def with_scn(**kw):
        s = copy.deepcopy(scn)
        s.update(kw)
        return dict(case, scn=s)

    plan = scn["plan"]
    # drop incarnations
    for i in range(len(plan)):
        if len(plan) > 1:
            yield with_scn(plan=plan[:i] + plan[i + 1:])
    # drop crashes
    for i, sp in enumerate(plan):
        if sp.get("crash"):
            p2 = copy.deepcopy(plan)
            p2[i].pop("crash")
            yield with_scn(plan=p2)
            if sp["crash"].get("after", 0) > 0:
                p3 = copy.deepcopy(plan)
                p3[i]["crash"]["after"] = sp["crash"]["after"] // 2
                yield with_scn(plan=p3)
    # fewer steps
    for i, sp in enumerate(plan):
        st = sp.get("steps")
        if st and st > scn["workers"]:
            for new in (max(scn["workers"], st // 2), st - 1):
                if new < st:
                    p2 = copy.deepcopy(plan)
                    p2[i]["steps"] = new
                    yield with_scn(plan=p2, steps=max(q["steps"] for q in p2))
    if scn["workers"] > 1:
        yield with_scn(workers=scn["workers"] - 1)
        yield with_scn(workers=1)
    if scn["n_intf"] > 2 and scn["workers"] <= scn["n_intf"] - 2:
        n2 = scn["n_intf"] - 1
        cap = scn["cap"]
        if cap is not None and cap > n2 - 0.5:
            cap = None
        yield with_scn(n_intf=n2, moves=scn["moves"][:n2], cap=cap)
    if "wf" in scn["moves"]:
        yield with_scn(moves=["sh"] * len(scn["moves"]), cap=None)
    if scn["cap"] is not None:
        yield with_scn(cap=None)
    for key, neutral in (("multi_engine", False), ("lambda_minus_one", False), ("delete_old", False),
                         ("delete_old_all", False), ("pattern", False), ("screen", 0),
                         ("allowmaxlength", False), ("order_model", "fifo"), ("config_seed", 0),
                         ("maxlength", 2000), ("n_jumps", 2)):
        if scn.get(key) != neutral:
            kw = {key: neutral}
            if key == "delete_old":
                kw["delete_old_all"] = False
            yield with_scn(**kw)


# ======================================================================================
# history-level (parent side) checks
# ======================================================================================
def _viol(prop, vclass, msg, inc, case, site=None):
    known = any(e.get("property") == prop and e.get("class") == vclass
                and e.get("site") in (None, site) for e in case.get("known", []))
    return {"prop": prop, "class": vclass, "msg": str(msg)[:600], "site": site, "inc": inc,
            "step": None, "known": known}


def history_c04(case, inc, spec, code, events, end, rundir, res):
    """Rows + live fractions on disk sum, per column, to the number of idle steps so far."""
    import numpy as np
    from sim.monitors import parse_data_file, LD
    out = []
    mon = (end.get("mon") or {}).get("C04Monitor") or {}
    ic = mon.get("idle_counts") or []
    led = res.setdefault("_ledger", None)
    if ic:
        arr = np.array([LD(x) for x in ic], dtype=LD)
        res["_ledger"] = arr if led is None else led + arr
    cfg = read_restart(rundir)
    if cfg is None or cfg == "UNREADABLE" or res["_ledger"] is None:
        return out
    n = len(res["_ledger"])
    dfile = os.path.join(rundir, cfg["output"].get("data_file", "infretis_data.txt"))
    rows = parse_data_file(dfile)
    total = np.zeros(n, dtype=LD)
    seen = set()
    for r in rows:
        if r[0] == "TORN":
            out.append(_viol("C04", "torn_row", f"data file has a torn row: {r[1]!r}", inc, case))
            continue
        if r[0] in seen:
            out.append(_viol("C04", "row_twice", f"path {r[0]} appears twice in the data file", inc, case))
        seen.add(r[0])
        full = np.zeros(n, dtype=LD)
        full[:len(r[3])] = r[3]
        total += full
    active = [int(a) for a in cfg["current"]["active"]]
    for pn in active:
        if pn in seen:
            out.append(_viol("C04", "row_for_live_path", f"live path {pn} has a data row", inc, case))
    for pn, fr in cfg["current"].get("frac", {}).items():
        if int(pn) not in active:
            out.append(_viol("C04", "frac_for_dead_path", f"restart file keeps weights of path {pn} "
                             f"which is not live", inc, case))
        total += np.array([LD(x) for x in fr], dtype=LD)
    led = res["_ledger"]
    for c in range(n):
        if abs(float(total[c] - led[c])) > 1e-6:
            out.append(_viol("C04", "history_ledger_mismatch",
                             f"after incarnation {inc}: column {c} rows+live = {float(total[c])!r}, "
                             f"idle steps = {float(led[c])!r}", inc, case))
            break
    if case["scn"]["workers"] == 1 and code == 0:
        cstep = int(cfg["current"]["cstep"])
        for c in range(n - 1):
            if abs(float(total[c]) - cstep) > 1e-6:
                out.append(_viol("C04", "one_worker_total_not_cstep",
                                 f"column {c}: {float(total[c])!r} != cstep {cstep}", inc, case))
                break
    return out


def history_c17(case, inc, spec, code, events, end, rundir, res):
    out = []
    hist = res.setdefault("_c17", {"done": 0})
    started = [ev for ev in events if ev["ev"] == "start"]
    finished = any(ev["ev"] == "finished" for ev in events)
    setup_none = any(ev["ev"] == "setup_none" for ev in events)
    treated = sum(1 for ev in events if ev["ev"] == "treated")
    hist["done"] += treated
    cfg = read_restart(rundir)
    target = spec.get("steps")
    if cfg in (None, "UNREADABLE"):
        return out
    cstep = int(cfg["current"]["cstep"])
    if cstep != hist["done"]:
        out.append(_viol("C17", "cstep_not_completed_moves",
                         f"after incarnation {inc}: restart file cstep {cstep}, completed moves "
                         f"{hist['done']}", inc, case))
    if setup_none and target is not None and target > cstep and inc > 0:
        out.append(_viol("C17", "restart_refused",
                         f"incarnation {inc}: steps raised to {target} > cstep {cstep} but the restart "
                         f"did not start (setup_config returned None); restarted_from="
                         f"{cfg['current'].get('restarted_from')}", inc, case,
                         site="restart_after_idle_restart"))
    if finished and code == 0:
        if target is not None and cstep != max(target, started[0]["cstep"] if started else 0):
            out.append(_viol("C17", "final_cstep_not_steps",
                             f"incarnation {inc} finished with cstep {cstep}, steps {target}", inc, case))
        if cfg["current"].get("locked"):
            out.append(_viol("C17", "finished_with_locked",
                             f"incarnation {inc} finished but restart file lists in-flight jobs "
                             f"{cfg['current']['locked']}", inc, case,
                             site="remaining_lt_workers"))
    return out


def history_c07(case, inc, spec, code, events, end, rundir, res):
    """No two distinct jobs of the whole history share a stream (key or state)."""
    out = []
    led = res.setdefault("_c07", {"jobs": [], "completed": set()})
    done = set((inc, ev["jid"]) for ev in events if ev["ev"] == "complete" and not ev.get("failed"))
    for ev in events:
        if ev["ev"] != "streams":
            continue
        job = {"inc": inc, "jid": ev["jid"], "reissue": ev["reissue"], "ens": ev["ens"],
               "paths": ev["paths"], "streams": ev["streams"], "restarted": ev["restarted"],
               "restart_locked": ev["restart_locked"], "workers": ev["workers"], "c0": ev.get("c0", 0)}
        # keys the shipped derivation gives the n-th job of an incarnation started at cstep c0:
        # child (c0+n), per ensemble position e the move stream (c0+n, e) and the engine stream (c0+n, e, 0)
        base = job["c0"] + job["jid"] - 1
        expected_keys = {}
        for pos, e in enumerate(job["ens"]):
            expected_keys[(e, "move")] = [base, pos]
            expected_keys[(e, "engine")] = [base, pos, 0]
        mine = set()
        for s in job["streams"]:
            ident = (s["entropy"], tuple(s["key"]))
            if ident in mine:
                out.append(_viol("C07", "stream_reused", f"job {inc}/{job['jid']} uses stream "
                                 f"{ident} twice", inc, case, site="within_job"))
            mine.add(ident)
        for old in led["jobs"]:
            # a re-issued job may legitimately carry the streams of the lost job it replaces
            # a job lost in a crash (never consumed) left no trace: the job that replaces it after
            # the restart legitimately - and, for restart equivalence, necessarily - gets its streams
            if old["inc"] < inc and not old.get("completed"):
                continue
            for s in job["streams"]:
                for t in old["streams"]:
                    if (s["entropy"], s["key"]) == (t["entropy"], t["key"]) or s["state"] == t["state"]:
                        if old["inc"] == inc:
                            # two jobs of one incarnation: never explained by the known finding
                            site = ("restart_several_workers_initiation" if job["restarted"] and
                                    job["workers"] > 1 else "same_incarnation")
                        elif (job["restarted"] and (job["restart_locked"] > 0 or led.get("interrupted"))
                              and s["key"] == expected_keys.get((s["ens"], s["label"]))):
                            # the spawn counter is rebuilt from cstep alone: once a history contains
                            # an interruption with jobs in flight it under-counts for ever after, so a
                            # job may repeat the stream of a job consumed in an EARLIER incarnation.
                            # Only collisions on exactly the keys that mechanism produces are "known".
                            site = "restart_with_inflight_jobs"
                        elif job["restarted"] and (job["restart_locked"] > 0 or led.get("interrupted")):
                            site = "restart_with_inflight_jobs_unexpected_key"
                        elif job["restarted"] and job["workers"] > 1 and old["inc"] == inc:
                            site = "restart_several_workers_initiation"
                        elif job["restarted"]:
                            site = "after_restart"
                        else:
                            site = "first_incarnation"
                        concurrent = old["inc"] == inc and (inc, old["jid"]) not in done
                        out.append(_viol(
                            "C07", "stream_reused",
                            f"job {inc}/{job['jid']} (ens {job['ens']}, {s['label']}) has the same "
                            f"stream entropy={s['entropy']} key={s['key']} as job {old['inc']}/"
                            f"{old['jid']} (ens {old['ens']}, {t['label']})", inc, case, site=site))
                        break
                else:
                    continue
                break
            else:
                continue
            break
        led["jobs"].append(job)
    for j in led["jobs"]:
        if (j["inc"], j["jid"]) in done:
            j["completed"] = True
    if code != 0 and any(j["inc"] == inc and not j.get("completed") for j in led["jobs"]):
        led["interrupted"] = True
    return out
