"""Helpers shared by the scheduler-level (Layer A) checks."""
import copy
import os
import random

from sim import sched_sim as SS
from sim import scenario as SC

REAL = [
    "infretis.scheduler.scheduler", "infretis.setup.setup_config/setup_internal",
    "infretis.classes.repex.REPEX_state (pick, lock, treat_output, permanents, write_toml, data file)",
    "infretis.core.tis.run_md/select_shoot/shoot/wire_fencing/retis_swap_zero",
    "infretis.classes.path.Path/load_path", "infretis.classes.formatter.PathStorage",
    "infretis.classes.engines.factory.assign_engines/create_engines",
    "infretis.classes.engines.enginebase.EngineBase.propagate/add_to_path",
    "real file system (tmpfs scratch directory)", "real fork() per main-process incarnation",
]
STUB = [
    "aiorunner/future_list replaced by SimRunner/SimFutures (pickle round-trip in and out, job body "
    "run in-process, completion order and durations decided by the kernel)",
    "MD physics: lattice random walk engine loaded through the engine plug-in interface",
    "wall clock (time module in repex/tis namespaces), os.getpid in enginebase",
]


def read_restart(rundir):
    import tomli
    path = os.path.join(rundir, "restart.toml")
    if not os.path.isfile(path):
        return None
    try:
        with open(path, "rb") as fh:
            return tomli.load(fh)
    except Exception:
        return "UNREADABLE"


def gen_plan(rng, scn, kind):
    """Plans of incarnations. Each spec: steps (target written by the user), crash spec."""
    steps, w = scn["steps"], scn["workers"]
    if kind == "single":
        return [{"steps": steps}]
    if kind == "clean_chain":
        n = rng.choice([1, 1, 2, 3])
        cuts = sorted(set(rng.randrange(max(1, w), steps) for _ in range(n))) if steps > max(1, w) else []
        plan, first = [], True
        for c in cuts + [steps]:
            plan.append({"steps": c})
        return plan
    if kind == "crash_chain":
        n = rng.choice([1, 1, 2])
        plan = []
        for _ in range(n):
            plan.append({"steps": steps, "crash": {"kind": rng.choice(["exit", "exit", "worker_exc"]),
                                                   "after": rng.randrange(0, max(1, steps - 1))}})
        plan.append({"steps": steps})
        return plan
    if kind == "mixed":
        plan = []
        done = 0
        for _ in range(rng.choice([2, 3, 4])):
            tgt = min(steps, done + rng.randrange(1, max(2, steps // 2)))
            if rng.random() < 0.5:
                plan.append({"steps": steps, "crash": {"kind": "exit", "after": rng.randrange(0, 6)}})
            else:
                plan.append({"steps": max(tgt, w)})
                done = max(tgt, w)
        plan.append({"steps": steps})
        return plan
    if kind == "tail":   # restarts whose remaining step count is small relative to workers
        k = rng.randrange(w, steps + 1)
        plan = [{"steps": k}]
        if rng.random() < 0.4:
            plan.append({"steps": k})            # restart without raising steps
        if rng.random() < 0.3:
            plan.append({"steps": k})
        extra = rng.choice([1, 1, 2, w, w + 1, 2 * w])
        plan.append({"steps": k + extra})
        if rng.random() < 0.5:
            plan.append({"steps": k + extra + rng.choice([1, w, 2 * w + 1])})
        return plan
    raise ValueError(kind)


def result_from(res, case, nontrivial_rule=None):
    scn = case["scn"]
    nontriv = bool(res["probes"].get("overlap") or res["faults"] or len(scn["plan"]) > 1)
    if nontrivial_rule is not None:
        nontriv = nontrivial_rule(res, case)
    sample = {
        "seed": case["seed"],
        "scenario": {k: scn[k] for k in ("n_intf", "moves", "cap", "workers", "steps", "order_model",
                                          "config_seed", "maxlength", "plan")},
        "incarnations": res["incs"],
        "history": [
            {k: ev[k] for k in ("ev", "inc", "jid", "ens", "busy", "status", "cstep", "pin") if k in ev}
            for ev in res["events"] if ev["ev"] in ("submit", "complete", "treated", "crash", "died",
                                                    "setup_none", "finished")][:40],
    }
    aborted = any(ev["ev"] == "died" for ev in res["events"])
    return {
        "violations": res["violations"], "trace": res["trace"], "digest": res["digest"],
        "probes": res["probes"], "faults": res["faults"], "stats": res["stats"],
        "sim_time": res["sim_time"], "ksteps": res["ksteps"],
        "sig": str(tuple(res["sigs"])) + str(tuple((i["exit"], i["completed"]) for i in res["incs"])),
        "nontrivial": nontriv, "sample": sample, "aborted": aborted,
        "incs": res["incs"], "mon": res.get("mon"),
    }


def shrink_candidates(case):
    """Simpler scenarios: fewer incarnations, steps, workers, ensembles; plain moves; defaults."""
    scn = case["scn"]

    def with_scn(**kw):
        s = copy.deepcopy(scn)
        s.update(kw)
        return dict(case, scn=s)

    plan = scn["plan"]
    # drop incarnations
    for i in range(len(plan)):
        if len(plan) > 1:
            yield with_scn(plan=plan[:i] + plan[i + 1:])
    # drop crashes
    for i, sp in enumerate(plan):
        if sp.get("crash"):
            p2 = copy.deepcopy(plan)
            p2[i].pop("crash")
            yield with_scn(plan=p2)
            if sp["crash"].get("after", 0) > 0:
                p3 = copy.deepcopy(plan)
                p3[i]["crash"]["after"] = sp["crash"]["after"] // 2
                yield with_scn(plan=p3)
    # fewer steps
    for i, sp in enumerate(plan):
        st = sp.get("steps")
        if st and st > scn["workers"]:
            for new in (max(scn["workers"], st // 2), st - 1):
                if new < st:
                    p2 = copy.deepcopy(plan)
                    p2[i]["steps"] = new
                    yield with_scn(plan=p2, steps=max(q["steps"] for q in p2))
    if scn["workers"] > 1:
        yield with_scn(workers=scn["workers"] - 1)
        yield with_scn(workers=1)
    if scn["n_intf"] > 2 and scn["workers"] <= scn["n_intf"] - 2:
        n2 = scn["n_intf"] - 1
        cap = scn["cap"]
        if cap is not None and cap > n2 - 0.5:
            cap = None
        yield with_scn(n_intf=n2, moves=scn["moves"][:n2], cap=cap)
    if "wf" in scn["moves"]:
        yield with_scn(moves=["sh"] * len(scn["moves"]), cap=None)
    if scn["cap"] is not None:
        yield with_scn(cap=None)
    for key, neutral in (("multi_engine", False), ("lambda_minus_one", False), ("delete_old", False),
                         ("delete_old_all", False), ("pattern", False), ("screen", 0),
                         ("allowmaxlength", False), ("order_model", "fifo"), ("config_seed", 0),
                         ("maxlength", 2000), ("n_jumps", 2)):
        if scn.get(key) != neutral:
            kw = {key: neutral}
            if key == "delete_old":
                kw["delete_old_all"] = False
            yield with_scn(**kw)
