"""C01 - sampling is unbiased: exact crossing probabilities of the lattice walk are reproduced."""
import json
import math
import os
import random
import sys
import time

import numpy as np

from checks import sched_common as C
from sim import common
from sim import monitors as M
from sim import scenario as SC
from sim import sched_sim as SS
from sim.kernel import hash64

PROP = "C01"
LEVEL = "exploration"
RULE = ("A scenario = (move assignment in {sh,wf}^ens, cap, workers, completion-order model incl. "
        "length-correlated, restart/crash plan); each scenario is run as R independent replicas "
        "(independent config seeds and kernel seeds) of S scheduler steps on the lattice engine. From "
        "infretis_data.txt alone p_k = sum(frac_k/w_k * 1[maxOP > lambda_{k+1}]) / sum(frac_k/w_k); "
        "accepted iff |mean_r p_k - (k+1)/(k+2)| <= 6*sigma_r/sqrt(R) + 4/S for every k, a failing "
        "scenario is re-run with 4R fresh replicas and must fail again. evaluations = replica runs; "
        "distinct_nontrivial = distinct completion-order signatures among replicas with >= 2 workers or "
        ">= 1 restart.")
ASSUMPTIONS = [
    "statistical acceptance: band of 6 replica standard errors plus a 4/S allowance for the O(1/S) "
    "ratio-estimator and start-up bias (initial paths are not drawn from the stationary distribution); "
    "rows of the initial paths are left out",
    "power: quick detects relative biases of a few percent, thorough below one percent",
]
REAL, STUB = C.REAL, C.STUB


def budget(tier):
    return 240 if tier == "quick" else 5400


def sizes(tier):
    if tier == "quick":
        return {"scenarios": 4, "R": 16, "S": 5000}
    return {"scenarios": 24, "R": 16, "S": 20000}


def make_scenario(seed, i, tier):
    rng = random.Random(seed)
    S = sizes(tier)["S"]
    n_intf = rng.choice([3, 4, 4, 5])
    if i % 4 == 2:
        n_intf = 8          # long paths with several sub-paths of unequal length in the upper ensembles
    prof = {"n_intf": n_intf, "steps": S, "maxlength": 2000, "lambda_minus_one": False,
            "delete_old": True, "delete_old_all": True, "screen": 0, "pattern": False,
            "allowmaxlength": False, "multi_engine": rng.random() < 0.3,
            "wf_p": [0.0, 0.5, 1.0, 0.3][i % 4] if i < 8 else rng.choice([0.0, 0.3, 0.6, 1.0]),
            "cap_p": 0.0 if i % 4 == 2 else 0.5,
            "workers": [1, n_intf - 1, 2, 1][i % 4] if i < 8 else rng.randrange(1, n_intf),
            "order_model": ["fifo", "frames", "inverse", "uniform"][i % 4] if i < 8
            else rng.choice(SC.ORDER_MODELS)}
    scn = SC.gen_scenario(rng, prof)
    if i % 4 == 1:
        # wire fencing in the lower ensembles, shooting above, and a cap strictly inside: the
        # configuration in which cap-dependent weights matter
        n = scn["n_intf"] = max(4, scn["n_intf"])
        nwf = rng.choice(range(1, n - 2)) if n > 3 else 1
        scn["moves"] = ["sh"] + ["wf"] * nwf + ["sh"] * (n - 1 - nwf)
        scn["cap"] = rng.choice(range(nwf, n - 1)) + 0.5
        scn["workers"] = min(scn["workers"], n - 1)
    elif i % 4 == 2:
        # wire fencing everywhere with a single jump per move: the choice of the sub-path that seeds the
        # move is not washed out by further jumps
        scn["n_jumps"] = 1
    elif i % 4 == 3:
        scn["moves"][1] = "wf"          # [0+] with wire fencing: high-acceptance zero swaps
    nrestart = [0, 2, 1, 3][i % 4] if i < 8 else rng.choice([0, 0, 1, 2, 3])
    scn["nrestart"] = nrestart
    return scn


def replica_case(scn, rseed):
    rng = random.Random(rseed)
    s = dict(scn)
    s["config_seed"] = rng.randrange(0, 2**31)
    S, w = s["steps"], s["workers"]
    plan = []
    for _ in range(s.get("nrestart", 0)):
        if rng.random() < 0.5:
            plan.append({"steps": S, "crash": {"kind": "exit", "after": rng.randrange(1, S // 2)}})
        else:
            plan.append({"steps": rng.randrange(max(w, S // 10), S)})
    plan = sorted((p for p in plan if "crash" not in p), key=lambda p: p["steps"]) if False else plan
    # clean stops must be increasing; crashes can be anywhere
    last = 0
    fixed = []
    for p in plan:
        if "crash" in p:
            fixed.append(p)
        elif p["steps"] > last:
            fixed.append(p)
            last = p["steps"]
    fixed.append({"steps": S})
    s["plan"] = fixed
    return {"seed": rseed, "scn": s, "props": [PROP], "inc_timeout": 60 + S // 2}


def estimate(rundir, n_intf):
    # the file this run wrote (infretis_data_1.txt if the directory already held an earlier run's file)
    import tomli
    with open(os.path.join(rundir, "restart.toml"), "rb") as fh:
        dname = tomli.load(fh)["output"].get("data_file", "infretis_data.txt")
    rows = M.parse_data_file(os.path.join(rundir, dname))
    num = np.zeros(n_intf - 1)
    den = np.zeros(n_intf - 1)
    for r in rows:
        if r[0] == "TORN" or r[0] < n_intf:
            continue
        pn, length, maxop, frac, wts = r
        for k in range(n_intf - 1):
            col = k + 1
            if col < len(frac) and frac[col] != 0 and wts[col] != 0:
                v = float(frac[col] / wts[col])
                den[k] += v
                if maxop > k + 1.5:
                    num[k] += v
    return num, den, len(rows)


def run_replica(case):
    res = SS.run_case(case, lambda c, i: [], keep_dir=True)
    try:
        n_intf = case["scn"]["n_intf"]
        num, den, nrows = estimate(res["rundir"], n_intf)
        import tomli
        with open(os.path.join(res["rundir"], "restart.toml"), "rb") as fh:
            cstep = tomli.load(fh)["current"]["cstep"]
    finally:
        import shutil
        shutil.rmtree(os.path.dirname(res["rundir"]), ignore_errors=True)
    died = [ev for ev in res["events"] if ev["ev"] == "died"]
    return {"num": num.tolist(), "den": den.tolist(), "rows": nrows, "cstep": cstep,
            "sig": str(tuple(res["sigs"])), "probes": res["probes"], "faults": res["faults"],
            "stats": res["stats"], "sim_time": res["sim_time"], "ksteps": res["ksteps"],
            "died": died[:1], "incs": res["incs"], "nontrivial": case["scn"]["workers"] > 1
            or len(case["scn"]["plan"]) > 1}


run = run_replica
RUN_TIMEOUT = 3000


def judge(scn, reps):
    """Return (ok, table) for one scenario from its replica results."""
    n_intf = scn["n_intf"]
    S = scn["steps"]
    R = len(reps)
    table = []
    ok = True
    for k in range(n_intf - 1):
        ps = [r["num"][k] / r["den"][k] for r in reps if r["den"][k] > 0]
        if len(ps) < max(4, R // 2):
            table.append({"k": k, "n": len(ps), "note": "too few replicas with data"})
            ok = False
            continue
        mean = float(np.mean(ps))
        sd = float(np.std(ps, ddof=1))
        exact = (k + 1) / (k + 2)
        se = sd / math.sqrt(len(ps))
        band = 6 * se + 4.0 / S
        z = (mean - exact) / se if se > 0 else float("inf")
        good = abs(mean - exact) <= band
        ok = ok and good
        table.append({"k": k, "exact": round(exact, 6), "mean": round(mean, 6), "se": round(se, 6),
                      "z": round(z, 2), "band": round(band, 6), "ok": good, "replicas": len(ps)})
    return ok, table


def _scn_summary(scn):
    return {k: scn[k] for k in ("n_intf", "moves", "cap", "workers", "order_model", "steps", "nrestart",
                                "multi_engine")}


def custom_main(args, tier, seed, budget_s):
    t0 = time.time()
    sz = sizes(tier)
    if os.environ.get("VERIF_C01_SIZES"):
        sz.update(json.loads(os.environ["VERIF_C01_SIZES"]))
    scns = []
    for i in range(sz["scenarios"]):
        s = make_scenario(hash64(seed, PROP, "scn", i), i, tier)
        s["steps"] = sz["S"]
        scns.append(s)
    print(f"[C01] {len(scns)} scenarios x {sz['R']} replicas x {sz['S']} steps", flush=True)

    def cases(round_no, which, R):
        for si in which:
            for r in range(R):
                c = replica_case(scns[si], hash64(seed, PROP, "rep", si, round_no, r))
                c["si"] = si
                c["round"] = round_no
                yield c

    results = {i: [] for i in range(len(scns))}
    harness, sigs, n = [], set(), 0
    agg = {"probes": {}, "faults": {}, "stats": {}, "sim_time": 0.0, "ksteps": 0}

    def collect(gen, store):
        nonlocal n
        for case, res in gen:
            if res.get("harness_error"):
                harness.append(res["harness_error"])
                continue
            if res.get("died"):
                harness.append(f"replica died: {res['died']}")
                continue
            n += 1
            store[case["si"]].append(res)
            want = sz["R"] if case["round"] == 0 else 4 * sz["R"]
            if len(store[case["si"]]) == want:
                ok_, tab_ = judge(scns[case["si"]], store[case["si"]])
                print(f"[C01] scenario {case['si']} round {case['round']} complete: {'ok' if ok_ else 'OUT'} "
                      + " ".join(f"k{t['k']}:{t.get('mean')}(z={t.get('z')})" for t in tab_), flush=True)
            if res["nontrivial"]:
                sigs.add(res["sig"])
            for key in ("probes", "faults", "stats"):
                for name, v in res[key].items():
                    agg[key][name] = agg[key].get(name, 0) + v if not name.startswith("max_") else max(
                        agg[key].get(name, 0), v)
            agg["sim_time"] += res["sim_time"]
            agg["ksteps"] += res["ksteps"]

    collect(common.run_batch(run_replica, cases(0, range(len(scns)), sz["R"]), budget_s * 10,
                             run_timeout=RUN_TIMEOUT), results)
    verdicts = {}
    suspects = []
    for si, scn in enumerate(scns):
        if len(results[si]) < sz["R"] // 2:
            continue
        ok, table = judge(scn, results[si])
        verdicts[si] = {"ok": ok, "table": table, "scenario": _scn_summary(scn), "round": 0}
        if not ok:
            suspects.append(si)
    confirmed = []
    if suspects and not harness:
        print(f"[C01] scenarios outside the band: {suspects}; confirming with {4*sz['R']} fresh replicas",
              flush=True)
        res2 = {i: [] for i in suspects}
        collect(common.run_batch(run_replica, cases(1, suspects, 4 * sz["R"]), budget_s * 20,
                                 run_timeout=RUN_TIMEOUT), res2)
        for si in suspects:
            ok, table = judge(scns[si], res2[si])
            verdicts[si]["confirm"] = {"ok": ok, "table": table}
            if not ok:
                confirmed.append(si)
    wall = time.time() - t0
    steps_total = agg["stats"].get("jobs", 0)
    coverage = {
        "evaluations": n, "distinct_nontrivial": len(sigs), "rule": RULE,
        "samples": [verdicts[si] for si in sorted(verdicts)][:6],
        "scenarios": len(scns), "replicas_per_scenario": sz["R"], "steps_per_replica": sz["S"],
        "scheduler_steps": steps_total, "runs_per_hour": round(n / wall * 3600) if wall else 0,
        "steps_per_hour": round(steps_total / wall * 3600) if wall else 0,
        "sim_seconds": round(agg["sim_time"], 1), "kernel_steps": agg["ksteps"],
        "faults_fired": agg["faults"], "probes": agg["probes"], "stats": agg["stats"],
        "real_components": REAL, "stub_components": STUB,
        "seeds": {"verif_seed": seed, "derivation": "hash64(VERIF_SEED,'C01','rep',scenario,round,replica)"},
        "repo": common.repo_id(), "harness_errors": len(harness),
        "suspect_scenarios_round0": suspects, "confirmed_failures": confirmed,
    }
    if not args.no_evidence and n:
        common.write_evidence(PROP, tier, seed, LEVEL, coverage, wall, len(confirmed), ASSUMPTIONS)
    for si in sorted(verdicts):
        v = verdicts[si]
        line = " ".join(f"k{t['k']}:{t.get('mean')}({t.get('z')})" for t in v["table"])
        print(f"[C01] scn {si} {v['scenario']['moves']} w={v['scenario']['workers']} "
              f"{v['scenario']['order_model']} cap={v['scenario']['cap']} restarts={v['scenario']['nrestart']}"
              f" -> {'ok' if v['ok'] else 'OUT'} {line}", flush=True)
    print(f"[C01] replicas={n} steps={steps_total} wall={wall:.0f}s", flush=True)
    if confirmed:
        si = confirmed[0]
        bad = [t for t in verdicts[si]["confirm"]["table"] if not t.get("ok")]
        vdoc = {"class": "biased_crossing_probability",
                "message": f"scenario {verdicts[si]['scenario']}: {bad}", "site": None, "at": {}}
        case = {"seed": seed, "scenario_index": si, "scn": scns[si], "tier": tier, "sizes": sz,
                "replica_seeds": [hash64(seed, PROP, "rep", si, 1, r) for r in range(4 * sz["R"])]}
        path = common.write_replay(PROP, case, vdoc, None, False, 0, tier)
        print(f"[C01] {vdoc['message'][:600]}")
        print(f"VIOLATION property={PROP} replay={path}")
        return 1
    if harness:
        for h in harness[:3]:
            print("HARNESS-ERROR", str(h)[:1200], file=sys.stderr)
        return 2
    if n == 0:
        return 2
    return 0


def custom_replay(path):
    with open(path) as fh:
        doc = json.load(fh)
    case = doc["case"]
    scn = case["scn"]
    cases = [dict(replica_case(scn, rs), si=0) for rs in case["replica_seeds"]]
    reps = []
    for c, res in common.run_batch(run_replica, cases, 10**6, run_timeout=RUN_TIMEOUT):
        if not res.get("harness_error") and not res.get("died"):
            reps.append(res)
    ok, table = judge(scn, reps)
    print(json.dumps(table))
    if not ok:
        print(f"VIOLATION property={PROP} replay={path}")
        return 1
    print("replay did not reproduce the bias")
    return 0
