"""Generic check driver: seeded batch of simulated runs -> evidence, replay, verdict.

A check module provides:
  PROP, LEVEL, RULE, ASSUMPTIONS, REAL, STUB
  budget(tier) -> seconds
  make_case(seed, i, tier) -> case dict (JSON-able; must contain "seed")
  run(case) -> result dict with keys: violations[list], trace, digest, probes, faults, stats,
               sim_time, ksteps, sig (hashable/str), nontrivial (bool), sample (small JSON)
  shrink_candidates(case) -> iterable of simpler cases   (optional)
"""
import argparse
import importlib
import json
import os
import sys
import time

from sim import common
from sim.kernel import hash64


def unknown_violations(res, prop):
    return [v for v in res.get("violations", []) if v["prop"] == prop and not v.get("known")]


def known_hits(res, prop):
    return [v for v in res.get("violations", []) if v["prop"] == prop and v.get("known")]


def vkey(v):
    return (v["prop"], v["class"], v.get("site"))


def minimise(mod, case, res, budget_s):
    """ddmin-style shrinking of scenario and decision trace; keeps the violation class."""
    t0 = time.time()
    prop = mod.PROP
    target = vkey(unknown_violations(res, prop)[0])
    best_case, best_res = case, res
    tried = 0

    def attempt(cand):
        nonlocal best_case, best_res, tried
        if time.time() - t0 > budget_s:
            return False
        tried += 1
        try:
            r = common.with_alarm(min(60, max(5, budget_s)), mod.run, cand)
        except (Exception, common.HardTimeout):
            return False
        uv = unknown_violations(r, prop)
        if uv and vkey(uv[0]) == target:
            best_case, best_res = cand, r
            return True
        return False

    # 1. pin the decisions so that replay no longer depends on the PRNG
    if best_case.get("decisions") is None:
        cand = dict(best_case, decisions=best_res.get("trace", []))
        attempt(cand)
    # 2. scenario-level candidates, to fixpoint
    if hasattr(mod, "shrink_candidates"):
        progress = True
        while progress and time.time() - t0 < budget_s:
            progress = False
            for cand in mod.shrink_candidates(best_case):
                cand = dict(cand)
                # decisions of a different scenario: fall back to neutral defaults
                if attempt(cand):
                    progress = True
                    break
                if cand.get("decisions"):
                    cand2 = dict(cand, decisions=[])
                    if attempt(cand2):
                        progress = True
                        break
    # 3. ddmin over the decision list: replace chunks by neutral (i.e. drop them)
    dec = list(best_case.get("decisions") or [])
    nonneutral = [i for i, (kd, v) in enumerate(dec) if v not in (0, 0.0, False)]
    chunk = max(1, len(nonneutral) // 2)
    while nonneutral and chunk >= 1 and time.time() - t0 < budget_s:
        i = 0
        shrunk = False
        while i < len(nonneutral) and time.time() - t0 < budget_s:
            drop = set(nonneutral[i:i + chunk])
            cand_dec = [d for j, d in enumerate(dec) if j not in drop]
            if attempt(dict(best_case, decisions=cand_dec)):
                dec = cand_dec
                nonneutral = [j for j, (kd, v) in enumerate(dec) if v not in (0, 0.0, False)]
                shrunk = True
            else:
                i += chunk
        if chunk == 1 and not shrunk:
            break
        chunk = max(1, chunk // 2) if chunk > 1 else (1 if shrunk else 0)
    # final: use the trace actually consumed by the minimal run (drops unused decisions)
    final = dict(best_case, decisions=best_res.get("trace", best_case.get("decisions")))
    try:
        r = common.with_alarm(300, mod.run, final)
    except (Exception, common.HardTimeout):
        r = None
    uv = unknown_violations(r, prop) if r else []
    if uv and vkey(uv[0]) == target:
        best_case, best_res = final, r
    return best_case, best_res, tried


def do_replay(mod, path):
    with open(path) as fh:
        doc = json.load(fh)
    case = doc["case"]
    res = mod.run(case)
    uv = unknown_violations(res, mod.PROP) or known_hits(res, mod.PROP)
    want = doc.get("violation", {})
    if uv:
        v = uv[0]
        same = v["class"] == want.get("class")
        dig_same = (res.get("digest") == doc.get("digest"))
        print(f"replayed: class={v['class']} (recorded {want.get('class')}) "
              f"digest_match={dig_same} msg={v['msg'][:300]}")
        print(f"VIOLATION property={mod.PROP} replay={path}")
        return 1 if same else 3
    print(f"replay did not reproduce a violation of {mod.PROP} (recorded class {want.get('class')})")
    return 0


def main(argv=None):
    ap = argparse.ArgumentParser()
    ap.add_argument("prop")
    ap.add_argument("--tier", default=None)
    ap.add_argument("--replay", default=None)
    ap.add_argument("--budget", type=float, default=None)
    ap.add_argument("--max-cases", type=int, default=None)
    ap.add_argument("--no-evidence", action="store_true")
    args = ap.parse_args(argv)
    common.reexec_hashseed()
    common.sweep_stale_scratch()
    common.scratch_root()           # owns the scratch tree of this check; removed at exit
    common.use_repo()
    prop = args.prop.upper()
    mod = importlib.import_module(f"checks.{prop.lower()}")
    if args.replay:
        if hasattr(mod, "custom_replay"):
            return mod.custom_replay(args.replay)
        return do_replay(mod, args.replay)
    tier = common.tier_from_env(args.tier)
    seed = common.seed_from_env()
    budget = args.budget or float(os.environ.get("VERIF_BUDGET_S", 0)) or mod.budget(tier)
    if hasattr(mod, "custom_main"):
        print(f"[{prop}] tier={tier} VERIF_SEED={seed} repo={common.REPO}", flush=True)
        return mod.custom_main(args, tier, seed, budget)
    known = common.load_known()
    t0 = time.time()
    print(f"[{prop}] tier={tier} VERIF_SEED={seed} budget={budget:.0f}s repo={common.REPO}", flush=True)

    def cases():
        i = 0
        while True:
            c = mod.make_case(hash64(seed, prop, i), i, tier)
            if c is None:
                return
            c["known"] = [e for e in known.get("known", []) if e.get("property") == prop]
            yield c
            i += 1

    n = 0
    sigs_nontrivial = set()
    sigs_all = set()
    faults, probes, stats = {}, {}, {}
    sim_time = 0.0
    ksteps = 0
    samples = []
    harness_errors = []
    first_bad = None
    known_seen = {}
    aborted = 0
    extra_cov = {}

    def stop_on(res):
        return bool(res.get("harness_error")) or bool(unknown_violations(res, prop))

    try:
        for case, res in common.run_batch(mod.run, cases(), budget, stop_on=stop_on,
                                          max_cases=args.max_cases,
                                          run_timeout=getattr(mod, "RUN_TIMEOUT", 300)):
            if res.get("harness_error"):
                harness_errors.append((case, res["harness_error"]))
                continue
            n += 1
            sigs_all.add(res.get("sig"))
            if res.get("nontrivial"):
                sigs_nontrivial.add(res.get("sig"))
            for name, cnt in (res.get("faults") or {}).items():
                faults[name] = faults.get(name, 0) + cnt
            for name, cnt in (res.get("probes") or {}).items():
                probes[name] = probes.get(name, 0) + cnt
            for name, cnt in (res.get("stats") or {}).items():
                if isinstance(cnt, (int, float)):
                    if name.startswith("max_"):
                        stats[name] = max(stats.get(name, 0), cnt)
                    else:
                        stats[name] = stats.get(name, 0) + cnt
            for name, val in (res.get("cov") or {}).items():
                if isinstance(val, list):
                    s = extra_cov.setdefault(name, set())
                    s.update(map(str, val))
                else:
                    extra_cov[name] = extra_cov.get(name, 0) + val
            sim_time += res.get("sim_time", 0.0)
            ksteps += res.get("ksteps", 0)
            aborted += 1 if res.get("aborted") else 0
            if len(samples) < 3 and res.get("sample") is not None and res.get("nontrivial"):
                samples.append(res["sample"])
            for v in known_hits(res, prop):
                known_seen.setdefault(vkey(v), v)
            if first_bad is None and unknown_violations(res, prop):
                first_bad = (case, res)
    except common.HarnessError as exc:
        harness_errors.append((None, str(exc)))

    wall = time.time() - t0
    replay_path = None
    violation_doc = None
    if first_bad is not None:
        case, res = first_bad
        mb = getattr(mod, "MINIMISE_BUDGET", {"quick": 60, "thorough": 300}).get(tier, 60)
        print(f"[{prop}] violation found (seed {case['seed']}): "
              f"{unknown_violations(res, prop)[0]['class']}; minimising (<= {mb}s)...", flush=True)
        orig_dec = len(res.get("trace") or [])
        try:
            mcase, mres, tried = minimise(mod, case, res, mb)
        except Exception as exc:  # never lose the violation because shrinking failed
            print(f"[{prop}] minimiser error: {exc}")
            mcase, mres, tried = dict(case, decisions=res.get("trace")), res, 0
        v = unknown_violations(mres, prop)[0]
        violation_doc = {"class": v["class"], "message": v["msg"], "site": v.get("site"),
                         "at": {"incarnation": v.get("inc"), "step": v.get("step")}}
        mcase = {k: mcase[k] for k in mcase if k != "known"}
        mcase["known"] = case.get("known", [])
        replay_path = common.write_replay(prop, mcase, violation_doc, mres.get("digest"),
                                          minimised=tried > 0, original_decisions=orig_dec, tier=tier)
        print(f"[{prop}] {v['class']}: {v['msg'][:500]}")

    if samples == [] and n:
        samples = [{"note": "no non-trivial sample captured"}]
    coverage = {
        "evaluations": n,
        "distinct_nontrivial": len(sigs_nontrivial),
        "rule": mod.RULE,
        "samples": samples,
        "distinct_signatures_all": len(sigs_all),
        "runs_per_hour": round(n / wall * 3600) if wall > 0 else 0,
        "sim_seconds": round(sim_time, 3),
        "kernel_steps": ksteps,
        "faults_fired": faults,
        "probes": probes,
        "stats": stats,
        "aborted_runs": aborted,
        "real_components": mod.REAL,
        "stub_components": mod.STUB,
        "seeds": {"verif_seed": seed, "count": n, "derivation": "hash64(VERIF_SEED, property, i)"},
        "repo": common.repo_id(),
        "known_findings_hit": [f"{k[1]}@{k[2]}" for k in known_seen],
        "harness_errors": len(harness_errors),
    }
    for name, val in extra_cov.items():
        coverage[name] = len(val) if isinstance(val, set) else val
    if hasattr(mod, "finalize"):
        mod.finalize(coverage, tier)
    if not args.no_evidence and n > 0:
        common.write_evidence(prop, tier, seed, mod.LEVEL, coverage, wall,
                              violations=1 if first_bad else 0, assumptions=mod.ASSUMPTIONS)
    for k, v in known_seen.items():
        print(f"KNOWN-FINDING: property={prop} {v['class']}"
              f"{'@' + str(v['site']) if v.get('site') else ''}: {v['msg'][:300]}")
    print(f"[{prop}] runs={n} distinct_nontrivial={len(sigs_nontrivial)} wall={wall:.1f}s "
          f"faults={faults} probes={dict(list(probes.items())[:12])}", flush=True)
    if first_bad is not None:
        print(f"VIOLATION property={prop} replay={replay_path}")
        return 1
    if harness_errors:
        for case, err in harness_errors[:3]:
            print(f"HARNESS-ERROR seed={case.get('seed') if case else None}: {err[:1500]}", file=sys.stderr)
        return 2
    if n == 0:
        print("HARNESS-ERROR: no run completed", file=sys.stderr)
        return 2
    return 0


if __name__ == "__main__":
    sys.exit(main())
