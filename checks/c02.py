"""C02 - swap probabilities equal the exact permanent ratios (reachable states)."""
import random

from checks import sched_common as C
from sim import monitors as M
from sim import scenario as SC
from sim import sched_sim as SS

PROP = "C02"
LEVEL = "exploration"
RULE = ("One case = one simulated multi-worker history (sh and wf moves so that weights are 0/1 "
        "staircases as well as unequal positive wire-fencing weights, any set of busy ensembles, any row "
        "order produced by real swaps). Every distinct (W, locks) the scheduler evaluates is compared "
        "with exact permanent ratios (Ryser over Fractions) on the idle block: equality rtol 1e-8, zeros "
        "on busy rows/columns and where W=0, double stochasticity, invariance under rescaling one row, "
        "agreement of the permanent code path. Distinct = distinct (zero pattern, lock mask, weighted?) "
        "states summed over runs is reported separately; per-run distinctness = completion signature; "
        "non-trivial = at least one matrix with a busy ensemble or unequal weights was checked.")
ASSUMPTIONS = ["only states reached by simulated histories are checked (the for-all-matrices statement is "
               "input enumeration, which this technique does not do)",
               "idle blocks up to 9 are compared with exact rational permanents (rtol 1e-8), 10..14 with a "
               "long-double Glynn permanent (rtol 1e-5, atol 1e-6: the oracle's own cancellation error reaches 1e-8); "
               "one case in 30 is a 14-ensemble all-wf system"]
REAL, STUB = C.REAL, C.STUB


def budget(tier):
    return 75 if tier == "quick" else 1500


def make_case(seed, i, tier):
    rng = random.Random(seed)
    prof = {"n_intf_choices": [3, 4, 5, 6, 7, 8], "wf_p": rng.choice([0.0, 0.5, 0.8, 1.0]),
            "steps_choices": [10, 16, 24, 40], "maxlength": rng.choice([40, 200]),
            "delete_old": False}
    if i % 30 == 29:
        # one large system: 14 ensembles, all wire fencing, one worker - blocks above the size at which
        # the code switches algorithms
        prof.update(n_intf=14, wf_p=1.0, workers=1, steps=3, maxlength=200, lambda_minus_one=False,
                    multi_engine=False, order_model="fifo")
    scn = SC.gen_scenario(rng, prof)
    scn["plan"] = [{"steps": scn["steps"]}]
    return {"seed": seed, "scn": scn, "props": [PROP]}


class ProbDeathMonitor(SS.Monitor):
    """The main process dying inside the probability code yields no matrix at all: also a C02 violation."""

    def on_died(self, exc):
        import traceback
        if "injected worker failure" in str(exc):
            return
        tb = traceback.extract_tb(exc.__traceback__)
        names = [f.name for f in tb if "/infretis/" in f.filename]
        hit = [n for n in names if n in ("prob", "inf_retis", "quick_prob", "permanent_prob", "random_prob",
                                         "fast_glynn_perm", "glynn", "force_quick")]
        if hit:
            self.sim.violate("C02", "prob_raised", f"{type(exc).__name__}: {exc} in {hit[-1]} at {SS._short_tb(exc)}",
                             site=hit[-1])


def monitors(case, inc):
    return [M.C02Monitor(), ProbDeathMonitor()]


def run(case):
    res = SS.run_case(case, monitors)
    mons = [m.get("C02Monitor") or {} for m in (res.get("mon") or {}).values()]
    checked = sum(m.get("checked", 0) for m in mons)
    states = [s for m in mons for s in m.get("states", [])]
    out = C.result_from(res, case, lambda r, c: checked > 0 and
                        (r["probes"].get("overlap", 0) > 0 or r["probes"].get("wf_unequal_weight_matrix", 0) > 0))
    out["cov"] = {"matrices_checked": checked, "distinct_matrix_states": states}
    return out


shrink_candidates = C.shrink_candidates
