"""C04 - fractional weights are conserved and accounted for exactly once."""
import random

from checks import sched_common as C
from sim import monitors as M
from sim import scenario as SC
from sim import sched_sim as SS

PROP = "C04"
LEVEL = "exploration"
RULE = ("One case = one simulated history (real scheduler + lattice engine, seeded completion order, "
        "clean stops, crashes between steps, restarts) with a conservation ledger evaluated after "
        "every treat_output and after every incarnation against the files on disk. Distinct = "
        "completion-order signature + exit pattern; non-trivial = jobs overlapped in flight, a "
        "fault fired or the history has more than one incarnation.")
ASSUMPTIONS = C03_ASSUMPTIONS = [
    "jobs are isolated processes (run at submission time on a pickled copy)",
    "crashes inside a step are covered by C08, here the main process only dies between steps",
    "tolerance 1e-9 per step and 1e-6 per history on long-double sums",
]
REAL, STUB = C.REAL, C.STUB


def budget(tier):
    return 75 if tier == "quick" else 1500


def make_case(seed, i, tier):
    rng = random.Random(seed)
    scn = SC.gen_scenario(rng, {"steps_choices": [6, 10, 16, 24, 40, 60],
                                "maxlength": rng.choice([20, 40, 200])})
    kind = rng.choice(["single", "clean_chain", "crash_chain", "mixed", "tail"])
    scn["plan"] = C.gen_plan(rng, scn, kind)
    return {"seed": seed, "scn": scn, "props": [PROP]}


def monitors(case, inc):
    return [M.C04Monitor()]


def run(case):
    res = SS.run_case(case, monitors, history_checks=C.history_c04)
    res.pop("_ledger", None)
    return C.result_from(res, case)


shrink_candidates = C.shrink_candidates
