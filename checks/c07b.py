"""C07 part (b): in every engine class, in-process random numbers of a move come from the job's stream."""
import copy
import os
import random
import shutil

import numpy as np

from sim import common
from sim import extprog as X
from sim.kernel import Kernel, hash64
from sim.monitors import global_rng_digest

KINDS = ["turtle_langevin", "ase_vv", "ase_langevin", "lammps", "cp2k", "gromacs", "lattice"]


def gen(rng):
    return {"engine": rng.choice(KINDS), "eng_seed": rng.randrange(1 << 30), "zero_momentum": rng.random() < 0.5,
            "maxlen": rng.choice([3, 6, 12]), "reverse": rng.random() < 0.3,
            "settings_seed": rng.choice([None, 70]), "no_vel": rng.random() < 0.3,
            "start_vel_rev": rng.random() < 0.3}


def run_engine_case(case):
    from infretis.classes.path import Path
    from infretis.classes.system import System
    from checks import engines_common as E
    from checks import c12
    import infretis.classes.engines.enginebase as EB
    scn = case["scn"]
    kind = scn["engine"]
    k = Kernel(case["seed"], case.get("decisions"))
    scratch = os.path.join(common.scratch_root(), f"c07b-{case['seed']}-{os.getpid()}")
    shutil.rmtree(scratch, ignore_errors=True)
    os.makedirs(scratch)
    viol = []

    def V(vclass, msg, site):
        known = any(e.get("property") == "C07" and e.get("class") == vclass and e.get("site") in (None, site)
                    for e in case.get("known", []))
        viol.append({"prop": "C07", "class": vclass, "msg": msg[:600], "site": site, "inc": None,
                     "step": None, "known": known})

    try:
        sim = None
        seeds_seen = []
        if kind in ("lammps", "cp2k", "gromacs"):
            scn2 = {"engine": kind, "op": "Distance", "geometry": "plain", "box_growth": 0.0, "subcycles": 1,
                    "maxlen": scn["maxlen"], "cross_after": 3, "direction": 1, "reverse": scn["reverse"],
                    "chunk_mode": "frame", "fail": None, "instant": False, "shuffle_ids": True, "retrace": False,
                    "eng_seed": scn["eng_seed"], "trr_endian": ">", "trr_double": False}
            if kind == "gromacs":
                import infretis.classes.engines.gromacs as GM
                orig = GM.GromacsEngine.__init__

                def patched(self, *a, **kw):
                    kw.setdefault("infretis_genvel", True)
                    kw.setdefault("masses", [1.008, 1.008])
                    return orig(self, *a, **kw)
                GM.GromacsEngine.__init__ = patched
                try:
                    ctx = c12._make_engine_call({"scn": scn2}, scratch, k)
                finally:
                    GM.GromacsEngine.__init__ = orig
            else:
                ctx = c12._make_engine_call({"scn": scn2}, scratch, k)
            eng, system, sim = ctx["eng"], ctx["system"], ctx["sim"]
            ens = {"interfaces": (ctx["left"], (ctx["left"] + ctx["right"]) / 2, ctx["right"]), "ens_name": "001"}
        else:
            EB.os = X.ProcSim(k, scn, None).os_shim()
            if hasattr(EB.counter, "count"):
                del EB.counter.count
            if kind.startswith("turtle"):
                eng, wconf, _, _ = E.build_turtle(scratch, "LangevinInertia", scn["eng_seed"],
                                                  settings_seed=scn.get("settings_seed"))
                conf, x0, v0, w = os.path.join(scratch, "s.xyz"), -0.9, 0.2, 0.3
                real_integ = eng.integrator
                real_init = real_integ.__init__

                def spy_init(self, *a, **kw):
                    seeds_seen.append(kw.get("seed"))
                    return real_init(self, *a, **kw)
            elif kind.startswith("ase"):
                eng, wconf, _, _ = E.build_ase(scratch, "velocityverlet" if kind == "ase_vv" else "langevin",
                                               scn["eng_seed"])
                conf, x0, v0, w = os.path.join(scratch, "s.traj"), 5.0, 0.05, 2.0
            else:
                eng, wconf, _, _ = E.build_lattice(scratch, scn["eng_seed"])
                conf, x0, v0, w = os.path.join(scratch, "s.lat"), 1, 0.0, 3.5
            wconf(conf, x0, v0)
            system = System()
            system.set_pos((conf, 0))
            ens = {"interfaces": (x0 - w, x0, x0 + w), "ens_name": "001"}
        eng.rgen = np.random.default_rng(scn["eng_seed"])
        # ---------------- velocity generation
        clone = copy.deepcopy(eng.rgen)
        vsystem = system
        if kind == "gromacs" and scn.get("no_vel"):
            # a start configuration without a VELOCITY block (initial .g96, or frames written with nstvout = 0)
            with open(system.config[0]) as fh:
                txt = fh.read()
            a, b = txt.find("VELOCITY"), txt.find("END", txt.find("VELOCITY"))
            if a >= 0 and b > a:
                nov = os.path.join(scratch, "start_novel.g96")
                with open(nov, "w") as fh:
                    fh.write(txt[:a] + txt[b + 4:])
                vsystem = system.copy()
                vsystem.set_pos((nov, 0))
        system, psystem = vsystem, system
        if scn.get("start_vel_rev") and kind != "lattice":
            system = system.copy()
            system.vel_rev = True          # shooting from a frame of a backward segment
        sysA = system.copy()
        g0 = global_rng_digest()
        st0 = eng.rgen.bit_generator.state
        eng.modify_velocities(sysA, {"zero_momentum": scn["zero_momentum"]})
        if global_rng_digest() != g0:
            V("global_rng_used", f"{kind}: modify_velocities changed the process-global numpy/python RNG state",
              f"{kind.split('_')[0]}:modify_velocities")
        with open(sysA.config[0], "rb") as fh:
            bytesA = fh.read()
        if kind != "lattice":
            if eng.rgen.bit_generator.state == st0:
                V("engine_stream_not_used", f"{kind}: velocities were generated without drawing from engine.rgen",
                  f"{kind.split('_')[0]}:modify_velocities")
            eng.rgen = copy.deepcopy(clone)
            sysB = system.copy()
            np.random.seed(12345)          # perturb the global state: the result must not depend on it
            eng.modify_velocities(sysB, {"zero_momentum": scn["zero_momentum"]})
            with open(sysB.config[0], "rb") as fh:
                bytesB = fh.read()
            if kind.startswith("ase"):
                from ase.io import read
                import tempfile
                pa = os.path.join(scratch, "a.traj")
                with open(pa, "wb") as fh:
                    fh.write(bytesA)
                same = np.array_equal(read(pa).get_velocities(), read(sysB.config[0]).get_velocities())
            else:
                same = bytesA == bytesB
            if not same:
                V("not_reproducible_from_stream", f"{kind}: the same engine stream gave different velocities",
                  f"{kind.split('_')[0]}:modify_velocities")
        # ---------------- propagation
        eng.rgen = np.random.default_rng(scn["eng_seed"] + 1)
        clone = copy.deepcopy(eng.rgen)
        if kind.startswith("turtle"):
            real_integ.__init__ = spy_init
        g0 = global_rng_digest()
        path = Path(maxlen=scn["maxlen"])
        try:
            eng.propagate(path, ens, psystem.copy(), reverse=scn["reverse"])
        finally:
            if kind.startswith("turtle"):
                real_integ.__init__ = real_init
        if global_rng_digest() != g0:
            V("global_rng_used", f"{kind}: propagate changed the process-global numpy/python RNG state",
              f"{kind.split('_')[0]}:propagate")
        if kind.startswith("turtle"):
            want = int(clone.integers(0, 1e9))
            if seeds_seen != [want]:
                V("integrator_seed_not_from_stream", f"{kind}: integrator seeds {seeds_seen}, the stream gives {want}",
                  "turtle:propagate")
        if kind == "lammps":
            want = int(clone.integers(0, 1e7))
            got = sim.inputs[-1].get("seed")
            if got is None or int(float(got)) != want:
                V("integrator_seed_not_from_stream", f"lammps: run.inp seed {got}, the stream gives {want}",
                  "lammps:propagate")
        return viol, {"kind": kind, "trace": k.trace}
    finally:
        shutil.rmtree(scratch, ignore_errors=True)
