"""C05 - the sampler never stalls: a job can always be drawn, sorting terminates, restart loads."""
import random

from checks import sched_common as C
from sim import monitors as M
from sim import scenario as SC
from sim import sched_sim as SS

PROP = "C05"
LEVEL = "exploration"
RULE = ("One case = one simulated history with workers up to ensembles-1, WF weights, caps and "
        "lambda_minus_one; after every step the progress invariants are evaluated and, at a seeded "
        "subset of steps, a forked loader restarts from a snapshot of the live directory and performs "
        "the initiation picks. Distinct = completion-order signature + exit pattern; non-trivial = "
        "overlap in flight, fault fired, several incarnations or a restart-load check ran.")
ASSUMPTIONS = [
    "an uncaught exception in the main process on a valid configuration counts as a stall",
    "non-termination is detected by a cap of 4n^2+8 swaps inside one treat_output and by the "
    "per-run wall timeout (reported as harness error, never as pass)",
]
REAL, STUB = C.REAL, C.STUB


def budget(tier):
    return 90 if tier == "quick" else 1500


def make_case(seed, i, tier):
    rng = random.Random(seed)
    prof = {"maxlength": rng.choice([12, 20, 40, 200])}
    if rng.random() < 0.5:
        prof["workers_choices"] = [99]       # clipped to ensembles-1: the bound of check_config
    deep = i % 4 == 3
    if deep:
        # long histories of larger systems with many workers: late symptoms of an earlier wrong move
        prof.update(n_intf_choices=[5, 6, 8], steps_choices=[60, 100], workers_choices=[3, 4, 99])
    if i % 40 == 21:
        # one large all-wire-fencing system: idle blocks above the size at which the probability code
        # switches from permanents to its Monte-Carlo estimate
        prof.update(n_intf=14, wf_p=1.0, workers=rng.choice([1, 2]), steps=4, maxlength=200,
                    lambda_minus_one=False, multi_engine=False, order_model="fifo")
        prof.pop("workers_choices", None)
        prof.pop("n_intf_choices", None)
        prof.pop("steps_choices", None)
    scn = SC.gen_scenario(rng, prof)
    scn["abs_load_dir"] = rng.random() < 0.15       # absolute simulation.load_dir
    kind = rng.choice(["single", "single", "clean_chain", "crash_chain", "mixed", "tail"])
    scn["plan"] = C.gen_plan(rng, scn, kind)
    return {"seed": seed, "scn": scn, "props": [PROP], "load_p": 0.05 if deep else rng.choice([0.1, 0.3, 1.0])}


class DeathMonitor(SS.Monitor):
    def on_died(self, exc):
        import traceback
        if "injected worker failure" in str(exc):
            return      # a fault the simulator injected: the main process is expected to die
        tb = traceback.extract_tb(exc.__traceback__)
        site = next((f"{f.name}" for f in reversed(tb) if "/infretis/" in f.filename), "?")
        self.sim.violate("C05", "main_died", f"{type(exc).__name__}: {exc} at {SS._short_tb(exc)}",
                         site=site)


def monitors(case, inc):
    return [M.C05Monitor(load_every=case.get("load_p", 0.2)), DeathMonitor()]


def _nontrivial(res, case):
    return bool(res["probes"].get("overlap") or res["faults"] or len(case["scn"]["plan"]) > 1
                or res["probes"].get("restart_load_checked"))


def run(case):
    res = SS.run_case(case, monitors)
    return C.result_from(res, case, _nontrivial)


shrink_candidates = C.shrink_candidates
