"""C07 - every job gets its own random stream (part a: stream ledger over scheduler histories)."""
import random

from checks import sched_common as C
from sim import monitors as M
from sim import scenario as SC
from sim import sched_sim as SS

PROP = "C07"
LEVEL = "exploration"
RULE = ("One case = one history of the real scheduler with 1..ensembles-1 workers, clean stops, crashes "
        "with and without in-flight jobs and repeated restarts, arbitrary seeds. At the runner seam the "
        "(entropy, spawn key, state) of every job's move and engine streams is recorded; checked per "
        "job (fresh, own object, entropy == seed, not the scheduler's) and over the whole history "
        "(pairwise distinct across incarnations). A tripwire compares the global numpy/python RNG state "
        "around every move. Distinct = completion-order signature + exit pattern; non-trivial = several "
        "incarnations or overlapping jobs.")
ASSUMPTIONS = [
    "jobs lost in a crash (submitted, never consumed) are exempt: restart equivalence (C06) requires "
    "that their replacement gets the same stream; any other coincidence of (entropy, spawn key) or "
    "state between two jobs of the history is a collision",
    "numpy 1.26 drops the seed sequence when a Generator is pickled, so streams are read from the object "
    "handed to submit_work, before the process boundary",
]
REAL, STUB = C.REAL, C.STUB


def budget(tier):
    return 75 if tier == "quick" else 1500


def make_case(seed, i, tier):
    rng = random.Random(seed)
    scn = SC.gen_scenario(rng, {"steps_choices": [4, 6, 10, 16], "maxlength": rng.choice([20, 40, 200]),
                                "config_seed": rng.choice([0, 1, 5, rng.randrange(2, 2**31)])})
    kind = rng.choice(["single", "clean_chain", "clean_chain", "crash_chain", "crash_chain", "mixed", "tail"])
    scn["plan"] = C.gen_plan(rng, scn, kind)
    return {"seed": seed, "scn": scn, "props": [PROP]}


def monitors(case, inc):
    return [M.C07Monitor()]


def run(case):
    res = SS.run_case(case, monitors, history_checks=C.history_c07)
    res.pop("_c07", None)
    return C.result_from(res, case)


shrink_candidates = C.shrink_candidates
