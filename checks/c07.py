"""C07 - every job gets its own random stream (part a: stream ledger over scheduler histories)."""
import random

from checks import sched_common as C
from sim import monitors as M
from sim import scenario as SC
from sim import sched_sim as SS

PROP = "C07"
LEVEL = "exploration"
RULE = ("One case = one history of the real scheduler with 1..ensembles-1 workers, clean stops, crashes "
        "with and without in-flight jobs and repeated restarts, arbitrary seeds. At the runner seam the "
        "(entropy, spawn key, state) of every job's move and engine streams is recorded; checked per "
        "job (fresh, own object, entropy == seed, not the scheduler's) and over the whole history "
        "(pairwise distinct across incarnations). A tripwire compares the global numpy/python RNG state "
        "around every move. Distinct = completion-order signature + exit pattern; non-trivial = several "
        "incarnations or overlapping jobs. Every sixth case is an engine-class case (part b): for TurtleMD, "
        "ASE (velocity Verlet and Langevin), LAMMPS, CP2K, GROMACS (infretis_genvel) and the plug-in engine, "
        "velocity generation and propagation are run with a global-RNG tripwire, the result must be "
        "reproducible from a clone of the engine stream and independent of the global state, and seeds "
        "handed to stochastic integrators (TurtleMD integrator, LAMMPS run.inp) must equal the next draw of "
        "the stream.")
ASSUMPTIONS = [
    "jobs lost in a crash (submitted, never consumed) are exempt: restart equivalence (C06) requires "
    "that their replacement gets the same stream; any other coincidence of (entropy, spawn key) or "
    "state between two jobs of the history is a collision",
    "numpy 1.26 drops the seed sequence when a Generator is pickled, so streams are read from the object "
    "handed to submit_work, before the process boundary",
]
REAL, STUB = C.REAL, C.STUB


def budget(tier):
    return 75 if tier == "quick" else 1500


def make_case(seed, i, tier):
    rng = random.Random(seed)
    if i % 6 == 5:
        from checks import c07b
        return {"seed": seed, "part": "b", "scn": c07b.gen(rng), "props": [PROP]}
    scn = SC.gen_scenario(rng, {"steps_choices": [4, 6, 10, 16], "maxlength": rng.choice([20, 40, 200]),
                                "config_seed": rng.choice([0, 1, 5, rng.randrange(2, 2**31)])})
    kind = rng.choice(["single", "clean_chain", "clean_chain", "crash_chain", "crash_chain", "mixed", "tail"])
    scn["plan"] = C.gen_plan(rng, scn, kind)
    return {"seed": seed, "scn": scn, "props": [PROP]}


def monitors(case, inc):
    return [M.C07Monitor()]


def run(case):
    if case.get("part") == "b":
        from checks import c07b
        from sim.kernel import hash64
        viol, info = c07b.run_engine_case(case)
        scn = case["scn"]
        return {"violations": viol, "trace": info["trace"], "digest": str(hash64(str(viol))),
                "probes": {"engine_stream_cases": 1, "engine_" + scn["engine"]: 1}, "faults": {}, "stats": {},
                "sim_time": 0.0, "ksteps": 0, "sig": "b" + str(sorted(scn.items())), "nontrivial": True,
                "sample": {"part": "b", "seed": case["seed"], "scenario": scn}}
    res = SS.run_case(case, monitors, history_checks=C.history_c07)
    res.pop("_c07", None)
    return C.result_from(res, case)


def shrink_candidates(case):
    if case.get("part") == "b":
        scn = case["scn"]
        for key, val in (("reverse", False), ("zero_momentum", False), ("maxlen", 3)):
            if scn.get(key) != val:
                yield dict(case, scn=dict(scn, **{key: val}))
        return
    yield from C.shrink_candidates(case)
