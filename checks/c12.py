"""C12 - every engine returns the trajectory it actually ran."""
import os
import random
import shutil
import traceback

import numpy as np

from sim import common
from sim import extprog as X
from sim.kernel import Kernel, hash64

PROP = "C12"
LEVEL = "exploration"
RULE = ("One case = one call sequence of EngineBase.propagate on a real engine object (LAMMPS, CP2K, GROMACS "
        "built from the repository's examples/*/H2 inputs; TurtleMD, ASE and the plug-in lattice engine "
        "in-process) against a simulated external program that integrates a deterministic reversible model "
        "and appends real bytes to the real output files as virtual time passes: per poll nothing / a few "
        "bytes (torn frames) / one frame / several frames / everything; file appearing late; run over before "
        "the first poll; non-zero exit before or after producing frames; output files out of step; box "
        "changing every frame. Oracle from the program's ground truth: first frame == start point, every "
        "stored order == order recomputed from the referenced frame's own coordinates, box and velocity "
        "sign, stop at the first frame outside the interfaces or at maxlen with success only in the former "
        "case, program stopped at return, non-zero exit raises, backward run "
        "retraces the forward run. Distinct = (engine, order parameter, reverse, box model, chunk pattern "
        "signature, fault kind); non-trivial = torn poll, several frames in one poll, or a fault fired.")
ASSUMPTIONS = [
    "external binaries are absent: the programs are simulated at file-format and process-API level "
    "(physics is irrelevant to the property); GROMACS' own velocity generation is out of scope",
    "a program that exits 0 before the requested number of steps IS injected, but a verdict is given only "
    "when the frames it wrote contain the end of the path (first crossing or maxlen); otherwise the "
    "property does not say what the engine should do",
    "retrace tolerance 1e-6 (text precision of a restart frame), order tolerance 1e-9",
]
REAL = ["EngineBase.propagate/dump_frame/add_to_path", "LAMMPSEngine._propagate_from/_extract_frame/"
        "_reverse_velocities/read_lammpstrj/write_lammpstrj/read_energies/write_for_run",
        "CP2KEngine._propagate_from/write_for_run_vel/update_cp2k_input/_extract_frame/_reverse_velocities",
        "GromacsEngine.__init__/_execute_grompp/_propagate_from/get_energies/_extract_frame, GromacsRunner, "
        "TRR and g96 codecs", "TurtleMDEngine, ASEEngine (real turtlemd / ase integrators), lattice plug-in engine",
        "ReadAndProcessOnTheFly + lammpstrj_reader/xyz_reader", "Distance / Distancevel order parameters",
        "real files in a tmpfs scratch directory"]
STUB = ["lmp / cp2k / gmx binaries -> simulated programs (sim/extprog.py): subprocess.Popen, sleep, os.killpg/"
        "getpgid/setsid rebound in the engine module namespaces"]
RUN_TIMEOUT = 600


def budget(tier):
    return 120 if tier == "quick" else 1800


class Bad(Exception):
    def __init__(self, vclass, msg, site=None):
        super().__init__(msg)
        self.vclass, self.site = vclass, site


# --------------------------------------------------------------------------------------
def op_value(kind, pos, vel, box_len, sign=1.0):
    """Independent evaluation of Distance / Distancevel (orthogonal periodic box)."""
    d = pos[1] - pos[0]
    if box_len is not None:
        for i in range(3):
            L = box_len[i]
            if abs(d[i]) > 0.5 * L:
                d[i] = d[i] - round(d[i] / L) * L
    r = float(np.sqrt(np.dot(d, d)))
    if kind == "Distance":
        return r
    dv = (vel[1] - vel[0]) * sign
    return float(np.dot(d, dv) / r)


def make_case(seed, i, tier):
    rng = random.Random(seed)
    engine = ["lammps", "lammps", "cp2k", "gromacs", "lammps", "cp2k", "gromacs", "inproc"][i % 8]
    if engine == "inproc":
        kind = rng.choice(["turtle_langevin", "turtle_vv", "ase_vv", "ase_langevin", "lattice"])
        return {"seed": seed, "props": [PROP], "scn": {
            "engine": kind, "maxlen": rng.choice([3, 5, 8, 15, 40]), "reverse": rng.random() < 0.4,
            "x0": rng.uniform(0.0, 1.0), "v0": rng.uniform(-1.0, 1.0), "eng_seed": rng.randrange(1 << 30),
            "retrace": rng.random() < 0.5, "width": rng.choice([0.05, 0.2, 0.6]),
            "subcycles": rng.choice([1, 1, 2, 3]), "lj_sigma": rng.choice([0.0, 3.0, 3.0])}}
    scn = {
        "engine": engine,
        "op": rng.choice(["Distance", "Distance", "Distancevel"]),
        "geometry": rng.choice(["pbc", "pbc", "plain"]),
        "box_growth": rng.choice([0.0, 0.0, 0.01, 0.03]),
        "subcycles": rng.choice([1, 2, 5]),
        "maxlen": rng.choice([3, 4, 6, 10, 20, 40]),
        "cross_after": rng.choice([1, 2, 3, 5, 6, 7, 9, 15, 60]),
        "direction": rng.choice([1, -1]),
        "reverse": rng.random() < 0.4,
        "chunk_mode": rng.choice(["mixed", "mixed", "mixed", "frame", "burst", "bytes", "all", "tail1"]),
        "fail": rng.choice([None, None, None, "maybe", "yes"]),
        "instant": rng.random() < 0.2,
        "early_exit": rng.random() < 0.35,
        "shuffle_ids": rng.random() < 0.8,
        "retrace": rng.random() < 0.3,
        "eng_seed": rng.randrange(1 << 30),
        "trr_endian": rng.choice([">", "<"]),
        "trr_double": rng.random() < 0.4,
    }
    # structured part: chunk pattern x fault kind x crossing time are visited systematically per engine
    j = i // 8
    chunks = ["mixed", "frame", "burst", "bytes", "all", "tail1", "mixed", "mixed"]
    faults = ["none", "maybe", "yes", "early", "instant", "none", "early", "none"]
    crossings = [1, 2, 3, 5, 6, 7, 9, 15, 60]
    scn["chunk_mode"] = chunks[j % 8]
    fk = faults[(j // 8) % 8]
    scn["fail"] = {"maybe": "maybe", "yes": "yes"}.get(fk)
    scn["early_exit"] = fk == "early"
    scn["instant"] = fk == "instant"
    scn["cross_after"] = crossings[(j // 64) % 9]
    if scn["cross_after"] < 60 and rng.random() < 0.7:
        scn["maxlen"] = max(scn["maxlen"], scn["cross_after"] + rng.choice([1, 2, 5]))
    scn["early_hint"] = scn["cross_after"] + 1
    if scn["retrace"]:
        scn.update(box_growth=0.0, fail=None, reverse=False, early_exit=False, instant=False)
        scn["cross_after"] = max(scn["cross_after"], 3)
        scn["maxlen"] = max(scn["maxlen"], 6)
        scn["early_hint"] = scn["cross_after"] + 1
    if engine != "lammps":
        scn["box_growth"] = 0.0         # CP2K / GROMACS runs here are constant volume
    return {"seed": seed, "scn": scn, "props": [PROP]}


# --------------------------------------------------------------------------------------
def _lammps_setup(scn, scratch):
    from infretis.classes.engines.lammps import LAMMPSEngine, write_lammpstrj
    inp = os.path.join(scratch, "lammps_input")
    shutil.copytree(os.path.join(common.REPO, "examples", "lammps", "H2", "lammps_input"), inp)
    eng = LAMMPSEngine(lmp="lmp_sim", input_path=inp, timestep=0.2, subcycles=scn["subcycles"],
                       temperature=300, exe_path=scratch, sleep=0.1)
    return eng


def _cp2k_setup(scn, scratch):
    from infretis.classes.engines.cp2k import CP2KEngine
    inp = os.path.join(scratch, "cp2k_input")
    shutil.copytree(os.path.join(common.REPO, "examples", "cp2k", "H2", "cp2k_input"), inp)
    return CP2KEngine(cp2k="cp2k_sim", input_path=inp, timestep=0.2, subcycles=scn["subcycles"],
                      temperature=300, exe_path=scratch, sleep=0.1)


def _gromacs_setup(scn, scratch, wdir):
    from infretis.classes.engines.gromacs import GromacsEngine
    inp = os.path.join(scratch, "gromacs_input")
    shutil.copytree(os.path.join(common.REPO, "examples", "gromacs", "H2", "gromacs_input"), inp)
    eng = GromacsEngine(gmx="gmx_sim", input_path=inp, timestep=0.0002, subcycles=scn["subcycles"],
                        temperature=300, exe_path=scratch)
    eng.set_mdrun({"wmdrun": "gmx_sim mdrun", "exe_dir": wdir})
    return eng


def _initial_state(scn):
    L = 30.0
    dt = (0.0002 if scn["engine"] == "gromacs" else 0.2) * scn["subcycles"]
    if scn["geometry"] == "pbc":
        pos = np.array([[1.0, 3.0, 3.0], [L - 1.5, 3.0, 3.0]])    # min-image distance 2.5 across the boundary
        # atom 0 moving +x makes them... delta = x1 - x0 = L-2.5 -> wrapped -2.5; moving atom 0 to +x grows |.|
        grow_vec = np.array([1.0, 0.0, 0.0])
        who = 0
    else:
        pos = np.array([[10.0, 12.0, 9.0], [12.5, 12.0, 9.0]])
        grow_vec = np.array([-1.0, 0.0, 0.0])
        who = 0
    left, right = 2.0, 3.0
    d0 = 2.5
    target = right if scn["direction"] > 0 else left
    speed = (abs(target - d0) + 0.013) / (scn["cross_after"] * dt)      # crosses after ~cross_after frames
    vel = np.zeros((2, 3))
    vel[who] = grow_vec * speed * scn["direction"]
    vel[1] = np.array([0.0, 0.01, -0.02])                               # irrelevant transverse motion
    vel[0] += np.array([0.0, 0.01, -0.02])
    box = np.array([[0.0, L], [0.0, L], [0.0, L]])
    if scn["engine"] == "gromacs":      # nm instead of Angstrom
        pos, vel, box, left, right = pos * 0.1, vel * 0.1, box * 0.1, left * 0.1, right * 0.1
    return pos, vel, box, left, right


def _make_engine_call(case, scratch, k):
    """Build engine, order parameter, initial system. Returns dict with everything the oracle needs."""
    from infretis.classes.orderparameter import create_orderparameter
    from infretis.classes.system import System
    from infretis.classes.engines.lammps import write_lammpstrj
    import infretis.classes.engines.lammps as LM
    import infretis.classes.engines.enginebase as EB
    scn = case["scn"]
    import infretis.classes.engines.cp2k as CP
    import infretis.classes.engines.gromacs as GM
    factory = {"lammps": X.LammpsProgram, "cp2k": X.Cp2kProgram, "gromacs": X.gmx_factory}[scn["engine"]]
    sim = X.ProcSim(k, scn, factory)
    EB.subprocess = sim.subprocess()
    for mod in (LM, CP, GM):
        mod.subprocess = sim.subprocess()
        mod.sleep = sim.sleep
        mod.os = sim.os_shim()
    EB.os = sim.os_shim()
    if hasattr(EB.counter, "count"):
        del EB.counter.count
    wdir = os.path.join(scratch, "worker0")
    os.makedirs(wdir)
    if scn["engine"] == "lammps":
        eng = _lammps_setup(scn, scratch)
    elif scn["engine"] == "cp2k":
        eng = _cp2k_setup(scn, scratch)
    else:
        eng = _gromacs_setup(scn, scratch, wdir)
    eng.order_function = create_orderparameter({"orderparameter": {
        "class": scn["op"], "index": [0, 1], "periodic": True}})
    eng.rgen = np.random.default_rng(scn["eng_seed"])
    eng.exe_dir = wdir
    pos, vel, box, left, right = _initial_state(scn)
    if scn["engine"] == "lammps":
        conf = os.path.join(scratch, "start.lammpstrj")
        id_type = np.array([[1, 1], [2, 1]])
        write_lammpstrj(conf, id_type, pos.copy(), vel.copy(), box.copy())
    elif scn["engine"] == "cp2k":
        from infretis.classes.engines.engineparts import write_xyz_trajectory
        conf = os.path.join(scratch, "start.xyz")
        write_xyz_trajectory(conf, pos.copy(), vel.copy(), ["H", "H"], box[:, 1].copy(), append=False)
    else:
        from infretis.classes.engines.gromacs import write_gromos96_file
        conf = os.path.join(scratch, "start.g96")
        write_gromos96_file(conf, eng.top, pos.copy(), vel.copy(), box[:, 1].copy())
    system = System()
    system.set_pos((conf, 0))
    system.vel_rev = False
    return {"sim": sim, "eng": eng, "system": system, "pos": pos, "vel": vel, "box": box,
            "left": left, "right": right}


def _truth_orders(scn, prog, reverse):
    sign = -1.0 if reverse else 1.0
    out = []
    for fr in prog.truth:
        blen = fr["box"][:, 1] - fr["box"][:, 0]
        p = fr["pos"] - fr["box"][:, 0]
        out.append(op_value(scn["op"], p.copy(), fr["vel"], blen, sign))
    return out


def _check_call(case, ctx, path, success, raised, prog, reverse, maxlen, start_order):
    scn = case["scn"]
    left, right = ctx["left"], ctx["right"]
    orders = _truth_orders(scn, prog, reverse)
    eng = scn["engine"]
    kc = next((i for i, o in enumerate(orders) if o < left or o > right), None)
    stop_k = min(kc, maxlen - 1) if kc is not None else maxlen - 1
    avail = prog._limit()
    failing = prog.fail_at is not None and not getattr(prog, "early", False)
    if stop_k >= avail and getattr(prog, "early", False):
        # a normal exit before the frames needed to end the path: the property does not say what
        # the engine should do, no verdict
        if raised is None:
            for i, pp in enumerate(path.phasepoints):
                if abs(float(pp.order[0]) - orders[i]) > 2e-6 * max(1.0, abs(orders[i])):
                    raise Bad("order_not_from_frame", f"{eng}: frame {i} stored {float(pp.order[0])!r}, own "
                              f"coordinates give {orders[i]!r}", site=eng)
        return "unspecified_early_exit"
    if stop_k >= avail:
        # the program ended before the propagation could end
        if not failing:
            raise RuntimeError(f"harness: program ran out of frames without a fault ({avail} <= {stop_k})")
        if raised is None:
            raise Bad("silent_truncation",
                      f"{eng}: program exited with code {prog.fail_at[1]} after {avail} frames (crossing/limit "
                      f"at frame {stop_k}) but propagate returned a path of {path.length} frames, success={success}",
                      site=eng)
        return "raised_on_failure"
    if raised is not None:
        if failing and isinstance(raised, RuntimeError):
            return "raised_on_failure_late"      # the program did fail; raising is within the contract
        raise Bad("engine_raised", f"{eng}: propagate raised {type(raised).__name__}: {raised} "
                  f"[{''.join(traceback.format_tb(raised.__traceback__)[-2:])[-300:]}]", site=eng)
    want_len = stop_k + 1
    want_success = kc is not None and kc == stop_k
    if path.length != want_len:
        raise Bad("wrong_length", f"{eng}: path has {path.length} frames, the run crosses/limits at frame "
                  f"{stop_k} (orders {[round(o, 5) for o in orders[:want_len + 1]]}, interfaces {left},{right}, "
                  f"maxlen {maxlen})", site=eng)
    if bool(success) != want_success:
        raise Bad("wrong_success_flag", f"{eng}: success={success}, expected {want_success} (crossing at {kc}, "
                  f"maxlen {maxlen})", site=eng)
    if start_order is not None and abs(path.phasepoints[0].order[0] - start_order) > 1e-6 * max(1, abs(start_order)):
        raise Bad("first_frame_not_start", f"{eng}: first order {path.phasepoints[0].order[0]} != start point "
                  f"{start_order}", site=eng)
    for i, pp in enumerate(path.phasepoints):
        got = float(pp.order[0])
        if abs(got - orders[i]) > (2e-6 if eng == "gromacs" else 1e-9) * max(1.0, abs(orders[i])):
            raise Bad("order_not_from_frame",
                      f"{eng}: frame {i} stored order {got!r} but its own coordinates/box/velocity sign give "
                      f"{orders[i]!r} (reverse={reverse}, box growth {scn['box_growth']}, frames per poll vary)",
                      site=eng)
        if pp.config[1] != i or os.path.realpath(pp.config[0]) != os.path.realpath(ctx["traj_file"](prog)):
            raise Bad("wrong_frame_reference", f"{eng}: frame {i} references {pp.config}", site=eng)
        if bool(pp.vel_rev) != bool(reverse):
            raise Bad("wrong_vel_rev", f"{eng}: frame {i} vel_rev={pp.vel_rev}, reverse={reverse}", site=eng)
        # energies are not part of the property statement: recorded as reach information only
        tr = prog.truth[i]
        for key in ("ekin", "vpot"):
            val = getattr(pp, key, None)
            if val is None:
                ctx["sim"].k.probe("energy_missing_for_frame")
            elif abs(float(val) - tr[key]) > 1e-7 * max(1.0, abs(tr[key])):
                ctx["sim"].k.probe("energy_of_another_frame")
            else:
                ctx["sim"].k.probe("energy_aligned")
    for p in ctx["sim"].procs:
        if p.returncode is None:
            raise Bad("program_left_running", f"{eng}: program pid {p.pid} still running when propagate "
                      f"returned (sigterm={p.sigterm}, waited={p.waited})", site=eng)
    return "ok"


def run_inproc(case):
    """TurtleMD / ASE / lattice plug-in: frame-by-frame oracle from the files the engine wrote."""
    from infretis.classes.path import Path
    from infretis.classes.system import System
    from checks import engines_common as E
    import infretis.classes.engines.enginebase as EB
    scn = case["scn"]
    kind = scn["engine"]
    k = Kernel(case["seed"], case.get("decisions"))
    scratch = os.path.join(common.scratch_root(), f"c12i-{case['seed']}-{os.getpid()}")
    shutil.rmtree(scratch, ignore_errors=True)
    os.makedirs(scratch)
    violations, outcome = [], "?"
    EB.os = X.ProcSim(k, scn, None).os_shim()
    if hasattr(EB.counter, "count"):
        del EB.counter.count
    try:
        if kind.startswith("turtle"):
            eng, wconf, rframes, order = E.build_turtle(
                scratch, "VelocityVerlet" if kind == "turtle_vv" else "LangevinInertia", scn["eng_seed"],
                subcycles=scn.get("subcycles", 1))
            x0 = -1.0 + 0.3 * (scn["x0"] - 0.5)
            v0 = scn["v0"] * 0.6
            left, right = x0 - scn["width"], x0 + scn["width"]
            tol, ext = 2e-9, "start.xyz"
        elif kind.startswith("ase"):
            eng, wconf, rframes, order = E.build_ase(
                scratch, "velocityverlet" if kind == "ase_vv" else "langevin", scn["eng_seed"],
                subcycles=scn.get("subcycles", 1), lj_sigma=scn.get("lj_sigma", 0.0))
            x0 = 5.0 + scn["x0"]
            v0 = scn["v0"] * 0.2
            left, right = x0 - 4 * scn["width"], x0 + 4 * scn["width"]
            tol, ext = 1e-9, "start.traj"
        else:
            eng, wconf, rframes, order = E.build_lattice(scratch, scn["eng_seed"])
            x0 = int(scn["x0"] * 4)
            v0 = 0.0
            left, right = x0 - 1.5 - int(scn["width"] * 5), x0 + 1.5 + int(scn["width"] * 5)
            tol, ext = 0.0, "start.lat"
        conf = os.path.join(scratch, ext)
        wconf(conf, x0, v0)
        system = System()
        system.set_pos((conf, 0))
        ens = {"interfaces": (left, (left + right) / 2, right), "ens_name": "001"}

        def check(path, success, reverse, what):
            if path.length < 1:
                raise Bad("empty_path", f"{kind}: {what}: empty path", site=kind)
            files = {}
            ops = []
            for i, pp in enumerate(path.phasepoints):
                f, idx = pp.config
                if f not in files:
                    files[f] = rframes(f)
                if idx is None or idx >= len(files[f]):
                    raise Bad("wrong_frame_reference", f"{kind}: {what}: frame {i} references {pp.config}, file "
                              f"has {len(files[f])} frames", site=kind)
                if idx != i:
                    raise Bad("wrong_frame_reference", f"{kind}: {what}: frame {i} references index {idx}", site=kind)
                want = order(files[f][idx], -1.0 if reverse else 1.0)
                got = float(pp.order[0])
                ops.append(got)
                if abs(got - want) > max(tol, 1e-9 * abs(want)):
                    raise Bad("order_not_from_frame", f"{kind}: {what}: frame {i} stored {got!r}, file gives "
                              f"{want!r}", site=kind)
                if bool(pp.vel_rev) != bool(reverse):
                    raise Bad("wrong_vel_rev", f"{kind}: {what}: frame {i} vel_rev={pp.vel_rev}", site=kind)
            inside = [left <= o <= right for o in ops]
            if not all(inside[:-1]):
                bad = inside.index(False)
                raise Bad("continued_after_crossing", f"{kind}: {what}: frame {bad} at {ops[bad]} is outside "
                          f"({left},{right}) but the path goes on to {path.length} frames", site=kind)
            crossed = not inside[-1]
            if bool(success) != crossed:
                raise Bad("wrong_success_flag", f"{kind}: {what}: success={success}, last frame {ops[-1]} "
                          f"{'outside' if crossed else 'inside'} ({left},{right})", site=kind)
            if not crossed and path.length != path.maxlen:
                raise Bad("stopped_early", f"{kind}: {what}: {path.length} frames, no crossing, maxlen "
                          f"{path.maxlen}", site=kind)
            if path.length > path.maxlen:
                raise Bad("too_long", f"{kind}: {what}: {path.length} > {path.maxlen}", site=kind)
            return ops

        try:
            path = Path(maxlen=scn["maxlen"])
            start_want = float(x0) if not kind.startswith("ase") else float(x0)
            success, _ = eng.propagate(path, ens, system, reverse=scn["reverse"])
            ops = check(path, success, scn["reverse"], "first run")
            if abs(ops[0] - start_want) > 1e-6:
                raise Bad("first_frame_not_start", f"{kind}: first order {ops[0]} != start {start_want}", site=kind)
            outcome = "ok"
            if scn["retrace"] and kind in ("turtle_vv", "ase_vv") and not scn["reverse"] and path.length >= 3:
                j = (1 + k.choose("retrace_from", path.length)) % path.length        # frame 0 included
                back = Path(maxlen=j + 2)
                ok2, _ = eng.propagate(back, ens, path.phasepoints[j].copy(), reverse=True)
                bops = check(back, ok2, True, "backward run")
                for i2, o in enumerate(bops):
                    if j - i2 >= 0 and abs(o - ops[j - i2]) > 2e-6 * max(1.0, abs(o)):
                        raise Bad("backward_does_not_retrace", f"{kind}: backward frame {i2} from forward frame "
                                  f"{j}: {o} vs {ops[j - i2]}", site=kind)
                outcome = "ok+retrace"
                if back.length >= 3:
                    # and forward again from a frame of the backward segment (its vel_rev is True)
                    m = 1 + k.choose("retrace_again_from", back.length - 1)
                    again = Path(maxlen=m + 1)
                    ok3, _ = eng.propagate(again, ens, back.phasepoints[m].copy(), reverse=False)
                    aops = check(again, ok3, False, "forward from a backward frame")
                    for i3, o in enumerate(aops):
                        if m - i3 >= 0 and abs(o - bops[m - i3]) > 4e-6 * max(1.0, abs(o)):
                            raise Bad("forward_from_backward_frame_does_not_retrace",
                                      f"{kind}: frame {i3} of a forward run started from backward frame {m}: "
                                      f"{o} vs {bops[m - i3]}", site=kind)
                    outcome = "ok+retrace2"
        except Bad as b:
            known = any(e.get("property") == PROP and e.get("class") == b.vclass
                        and e.get("site") in (None, b.site) for e in case.get("known", []))
            violations.append({"prop": PROP, "class": b.vclass, "msg": str(b)[:700], "site": b.site,
                               "inc": None, "step": None, "known": known})
        return {
            "violations": violations, "trace": k.trace, "digest": str(hash64(str(k.trace))),
            "probes": {"inproc_propagate_calls": 1 + outcome.count("retrace") + outcome.count("2"), "inproc_" + kind: 1},
            "faults": {}, "stats": {}, "sim_time": 0.0, "ksteps": 0,
            "sig": str((kind, scn["reverse"], scn["maxlen"], outcome, scn["width"])),
            "nontrivial": outcome.startswith("ok+retrace") or scn["reverse"],
            "cov": {"outcomes": [kind + ":" + outcome]},
            "sample": {"seed": case["seed"], "scenario": scn, "outcome": outcome},
        }
    finally:
        shutil.rmtree(scratch, ignore_errors=True)


def run(case):
    from infretis.classes.path import Path
    scn = case["scn"]
    if scn["engine"] not in ("lammps", "cp2k", "gromacs"):
        return run_inproc(case)
    k = Kernel(case["seed"], case.get("decisions"))
    scratch = os.path.join(common.scratch_root(), f"c12-{case['seed']}-{os.getpid()}")
    shutil.rmtree(scratch, ignore_errors=True)
    os.makedirs(scratch)
    violations = []
    outcome = "?"
    sig = []
    try:
        ctx = _make_engine_call(case, scratch, k)
        ctx["traj_file"] = lambda prog: prog.traj_file
        eng, system, sim = ctx["eng"], ctx["system"], ctx["sim"]
        ens = {"interfaces": (ctx["left"], (ctx["left"] + ctx["right"]) / 2, ctx["right"]), "ens_name": "001"}
        start_order = op_value(scn["op"], (ctx["pos"] - ctx["box"][:, 0]).copy(), ctx["vel"],
                               ctx["box"][:, 1] - ctx["box"][:, 0], 1.0)
        path = Path(maxlen=scn["maxlen"])
        raised, success, hang = None, None, None
        try:
            success, _ = eng.propagate(path, ens, system, reverse=scn["reverse"])
        except X.EngineHang as exc:
            hang = exc
        except Exception as exc:           # noqa
            raised = exc
        tprogs = [p for p in sim.procs if isinstance(p, X.TrajProgram)]
        prog = tprogs[-1] if tprogs else None
        if prog is None and raised is not None and scn.get("fail"):
            prog = None
        if prog is None:
            raise RuntimeError(f"harness: no program was started ({raised!r})")
        try:
            if hang is not None:
                raise Bad("engine_never_returns", f"{scn['engine']}: propagate does not return: {hang}",
                          site=scn["engine"])
            outcome = _check_call(case, ctx, path, success, raised, prog, scn["reverse"], scn["maxlen"],
                                  start_order)
            if scn["retrace"] and outcome == "ok" and path.length >= 3:
                j = 1 + k.choose("retrace_from", path.length - 1)
                sys2 = path.phasepoints[j].copy()
                back = Path(maxlen=j + 1)
                nprocs = len(sim.procs)
                ok2, _ = eng.propagate(back, ens, sys2, reverse=True)
                fwd = [float(pp.order[0]) for pp in path.phasepoints]
                bwd = [float(pp.order[0]) for pp in back.phasepoints]
                for i2, o in enumerate(bwd):
                    if j - i2 < 0:
                        break
                    if abs(o - fwd[j - i2]) > (1e-4 if scn["engine"] == "gromacs" else 1e-6) * max(1.0, abs(fwd[j - i2])):
                        raise Bad("backward_does_not_retrace",
                                  f"{scn['engine']}: backward frame {i2} from forward frame {j}: {o} vs "
                                  f"{fwd[j - i2]}", site=scn["engine"])
                outcome = "ok+retrace"
                if back.length >= 3:
                    # forward again from a frame of the backward segment (vel_rev already True)
                    m = 1 + k.choose("retrace_again_from", back.length - 1)
                    again = Path(maxlen=m + 1)
                    eng.propagate(again, ens, back.phasepoints[m].copy(), reverse=False)
                    tol2 = 2e-4 if scn["engine"] == "gromacs" else 4e-6
                    for i3, pp in enumerate(again.phasepoints):
                        o = float(pp.order[0])
                        if m - i3 >= 0 and abs(o - bwd[m - i3]) > tol2 * max(1.0, abs(o)):
                            raise Bad("forward_from_backward_frame_does_not_retrace",
                                      f"{scn['engine']}: frame {i3} of a forward run started from backward frame "
                                      f"{m}: {o} vs {bwd[m - i3]}", site=scn["engine"])
                        if bool(pp.vel_rev):
                            raise Bad("wrong_vel_rev", f"{scn['engine']}: forward frame {i3} has vel_rev=True",
                                      site=scn["engine"])
                    outcome = "ok+retrace2"
        except (Bad, X.EngineHang) as b:
            if isinstance(b, X.EngineHang):
                b = Bad("engine_never_returns", f"{scn['engine']}: a retrace propagate does not return: {b}",
                        site=scn["engine"])
            known = any(e.get("property") == PROP and e.get("class") == b.vclass
                        and e.get("site") in (None, b.site) for e in case.get("known", []))
            violations.append({"prop": PROP, "class": b.vclass, "msg": str(b)[:700], "site": b.site,
                               "inc": None, "step": None, "known": known})
        progs = [p for p in sim.procs if isinstance(p, X.TrajProgram)]
        sig = (scn["engine"], scn["op"], scn["reverse"], scn["box_growth"] > 0, scn["chunk_mode"],
               bool(scn["fail"]), outcome, tuple(sorted(k.probes)))
        return {
            "violations": violations, "trace": k.trace, "digest": str(hash64(str(k.trace))),
            "probes": dict(k.probes, propagate_calls=len(progs), polls=sim.npolls, sleeps=sim.nsleeps),
            "faults": dict(k.fault_counts), "stats": {}, "sim_time": k.now, "ksteps": sim.nsleeps,
            "sig": str(sig) + str(hash64(str(k.trace)) % 97),
            "nontrivial": bool(k.fault_counts) or bool(k.probes.get("torn_frame_at_poll")
                                                       or k.probes.get("several_frames_in_one_poll")),
            "cov": {"outcomes": [outcome]},
            "sample": {"seed": case["seed"], "scenario": scn, "outcome": outcome,
                       "path_len": None if raised else path.length,
                       "chunks": [d for d in k.trace if d[0] in ("chunk", "nbytes", "burst")][:30]},
        }
    finally:
        shutil.rmtree(scratch, ignore_errors=True)


def shrink_candidates(case):
    scn = case["scn"]
    if scn["engine"] not in ("lammps", "cp2k", "gromacs"):
        for key, val in (("retrace", False), ("reverse", False), ("maxlen", 5), ("width", 0.2)):
            if scn.get(key) != val:
                yield dict(case, scn=dict(scn, **{key: val}))
        return
    for key, val in (("retrace", False), ("fail", None), ("instant", False), ("early_exit", False), ("box_growth", 0.0),
                     ("shuffle_ids", False), ("reverse", False), ("op", "Distance"), ("geometry", "plain"),
                     ("subcycles", 1), ("chunk_mode", "frame"), ("maxlen", 6), ("cross_after", 2)):
        if scn.get(key) != val:
            yield dict(case, scn=dict(scn, **{key: val}))
