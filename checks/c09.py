"""C09 - accepted paths belong to their ensemble; rejections change nothing; shooting acceptance rule."""
import random

from checks import sched_common as C
from sim import monitors as M
from sim import scenario as SC
from sim import sched_sim as SS

PROP = "C09"
LEVEL = "exploration"
RULE = ("One case = one simulated history of the real scheduler on the lattice engine; every job is "
        "monitored: membership invariants for each accepted path (sh, wf, zero swap), bit-identity of "
        "the old path and its files after a rejection, and - for single-ensemble shooting moves - an "
        "independent reference model that recomputes shooting index, xi, backward and forward walks from "
        "clones of the job's own streams and predicts accept/reject (accept iff valid and xi <= "
        "n_old/n_new) and the accepted order sequence. maxlength is steered to bind often. Distinct = "
        "completion-order signature + exit pattern; non-trivial = at least one accepted and one rejected move.")
ASSUMPTIONS = [
    "reference model covers shooting on the lattice engine; wire fencing and zero swaps get membership "
    "invariants only",
    "no prediction when an unconstrained walk does not leave the interfaces within maxlength+3 frames",
]
REAL, STUB = C.REAL, C.STUB


def budget(tier):
    return 75 if tier == "quick" else 1500


def make_case(seed, i, tier):
    rng = random.Random(seed)
    prof = {"maxlength": rng.choice([6, 8, 10, 12, 16, 24, 40, 200]),
            "steps_choices": [10, 16, 24, 40], "wf_p": rng.choice([0.0, 0.0, 0.0, 0.4, 1.0])}
    scn = SC.gen_scenario(rng, prof)
    scn["plan"] = C.gen_plan(rng, scn, rng.choice(["single", "single", "clean_chain"]))
    return {"seed": seed, "scn": scn, "props": [PROP]}


def monitors(case, inc):
    return [M.C09Monitor()]


def _nontrivial(res, case):
    return res["stats"].get("acc", 0) > 0 and res["stats"].get("rej", 0) > 0


def run(case):
    res = SS.run_case(case, monitors)
    out = C.result_from(res, case, _nontrivial)
    n = sum((m.get("C09Monitor") or {}).get("model_predictions", 0) for m in (res.get("mon") or {}).values())
    a = sum((m.get("C09Monitor") or {}).get("accepted_checked", 0) for m in (res.get("mon") or {}).values())
    out["cov"] = {"model_predictions": n, "accepted_paths_checked": a}
    return out


shrink_candidates = C.shrink_candidates
