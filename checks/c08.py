"""C08 - a crash at any point leaves a restartable, consistent state."""
import copy
import os
import random
import shutil

from checks import sched_common as C
from checks.c06 import ReissueMonitor
from sim import fs_sim as FS
from sim import monitors as M
from sim import scenario as SC
from sim import sched_sim as SS
from sim.kernel import hash64

PROP = "C08"
LEVEL = "fault_enumeration"
RULE = ("One case = one scenario run once under the file-system effect seam with snapshot enumeration: "
        "before every main-process effect (open-for-write, write, flush/close, move, remove, rmdir, mkdir, "
        "replace) of every step the live directory is copied (= the disk after a kill there), plus torn "
        "variants (1, half, len-1 bytes) of every file flush; identical trees are merged. Each crash state "
        "is restarted the way a user would and continued to the end; oracle: the restart starts, every "
        "active path loads with non-zero weight, the re-issued jobs equal the locked list of the restart "
        "file, the run ends at cstep == steps, every dead path has exactly one data row, no torn rows, the "
        "weight ledger closes. A seeded subset of restarted runs is enumerated again (second crash) and a "
        "seeded 5% of crash states is reproduced by a real os._exit kill and compared byte-for-byte. "
        "evaluations = crash states restarted; distinct_nontrivial = distinct (step kind, effect kind, "
        "file role, torn?) crash sites.")
ASSUMPTIONS = [
    "crash = death of the main process: data handed to the kernel survives, Python-buffered data is lost; "
    "power loss (loss of kernel-buffered data) and disk errors are not modelled - no listed property "
    "specifies behaviour under them",
    "effects made by job bodies (worker processes) are not crash points of the main process",
    "quick keeps every effect index but restarts only the first occurrence of each step kind per scenario",
]
REAL = C.REAL + ["real os._exit kills for the cross-validation sample"]
STUB = C.STUB
RUN_TIMEOUT = 3600
MINIMISE_BUDGET = {"quick": 90, "thorough": 300}


def budget(tier):
    return 150 if tier == "quick" else 2400


def make_case(seed, i, tier):
    rng = random.Random(seed)
    prof = {"n_intf_choices": [2, 3, 3, 4], "steps_choices": [5, 6, 8, 10] if tier == "quick" else [8, 12, 16],
            "maxlength": rng.choice([20, 40]), "delete_old": rng.random() < 0.6,
            "screen": rng.choice([0, 1]), "pattern": rng.random() < 0.3}
    scn = SC.gen_scenario(rng, prof)
    if scn["delete_old"] and rng.random() < 0.5:
        scn["n_intf"] = min(scn["n_intf"], 3)        # short deletion lag so that deletions fire early
        scn["moves"] = scn["moves"][:scn["n_intf"]]
        scn["workers"] = min(scn["workers"], scn["n_intf"] - 1)
        if scn["cap"] is not None and scn["cap"] > scn["n_intf"] - 0.5:
            scn["cap"] = None
    pre = rng.choice([None, None, "clean", "crash", "long"])
    if pre == "long":
        # a long earlier incarnation (not enumerated): path numbers with two digits, a long data file,
        # deletions well under way; the enumerated incarnation is the short tail
        scn["long_pre"] = rng.choice([16, 22, 28])
        scn["steps"] = scn["long_pre"] + rng.choice([3, 4, 5])
    return {"seed": seed, "scn": scn, "props": [PROP], "pre": pre, "tier": tier,
            "second_p": 0.08 if tier == "quick" else 0.15, "kill_p": 0.05,
            "all_steps": tier != "quick",
            # the enumerated incarnation copies the directory at every effect: slow on a loaded machine
            "inc_timeout": 600 if tier == "quick" else 1800}


# --------------------------------------------------------------------------------------
class StepMonitor(SS.Monitor):
    """Tells the seam which step it is in; records step kinds and cumulative idle counts."""

    def __init__(self, c04):
        self.c04 = c04
        self.kinds = []
        self.cum = []

    def pre_treat(self, md):
        seam = self.sim.seam
        seam.step += 1
        seam.in_step = True
        self._removes = seam.kinds.get("remove", 0)

    def post_treat(self, md):
        seam = self.sim.seam
        seam.boundary("after_step")
        seam.in_step = False
        kind = ("ACC" if md.get("status") == "ACC" else "REJ", len(md["picked"]) == 2,
                seam.kinds.get("remove", 0) > self._removes,
                self.sim.inc > 0 and seam.step == 1)
        self.kinds.append(kind)
        self.cum.append([str(x) for x in self.c04.idle_counts])

    def on_end(self):
        self._fin()

    def on_stop(self):
        self._fin()

    def _fin(self):
        seam = self.sim.seam
        self.sim.extra_end = {"states": seam.states, "kinds": self.kinds, "cum": self.cum,
                              "effect_kinds": seam.kinds, "effects": seam.n}


def _phase1_monitors(case, inc):
    c04 = M.C04Monitor()
    return [c04, StepMonitor(c04)]


def _mk_install(mode, kill_at=None, arm_steps=None):
    def pre_install(sim, scratch):
        seam = FS.FsSeam(sim, scratch, mode=mode, kill_at=kill_at, arm_steps=arm_steps)
        seam.install()
        sim.seam = seam
    return pre_install


class DeathMonitor(SS.Monitor):
    def on_died(self, exc):
        pass


def _restart_monitors(case, inc):
    return [ReissueMonitor(), M.C04Monitor()]


def _role(rel):
    base = os.path.basename(rel)
    if base in ("restart.toml", "infretis_data.txt", "traj.txt", "order.txt", "energy.txt"):
        return base
    if base.startswith("restart.toml"):
        return "restart.tmp"
    if base.startswith("infretis_data"):
        return "infretis_data.txt"
    if "accepted" in rel:
        return "trajectory_file"
    if base.startswith("worker"):
        return "worker_dir"
    return "other:" + (base.split(".")[-1] if "." in base else base[:8])


def _site(state):
    return f"{state['kind'].split(':')[0]}:{_role(state['path'])}:{'torn' if state['torn'] is not None else 'whole'}"


def _final_checks(case, state, rundir, res, N, ledger0):
    """Oracle over the directory after the restarted run finished."""
    import numpy as np
    out = []
    site = _site(state)
    cfg = C.read_restart(rundir)
    if cfg in (None, "UNREADABLE"):
        out.append(C._viol(PROP, "final_restart_unreadable", f"after crash at {site}", None, case, site=site))
        return out
    cur = cfg["current"]
    if int(cur["cstep"]) != N:
        out.append(C._viol(PROP, "did_not_reach_steps", f"crash at {site}: final cstep {cur['cstep']} != {N}",
                           None, case, site=site))
    dfile = os.path.join(rundir, cfg["output"].get("data_file", "infretis_data.txt"))
    rows = M.parse_data_file(dfile)
    pns = []
    for r in rows:
        if r[0] == "TORN":
            out.append(C._viol(PROP, "torn_data_row", f"crash at {site}: data file has a torn row {r[1][:60]!r}",
                               None, case, site=site))
        else:
            pns.append(r[0])
    bad_lines = _malformed_rows(dfile, len(cur["active"]))
    if bad_lines:
        out.append(C._viol(PROP, "torn_data_row", f"crash at {site}: malformed data row(s) {bad_lines[:2]}",
                           None, case, site=site))
    active = [int(a) for a in cur["active"]]
    dup = sorted(set(p for p in pns if pns.count(p) > 1))
    if dup:
        out.append(C._viol(PROP, "replaced_path_row_twice",
                           f"crash at {site} (step {state['step']}, effect {state['effect']}): paths {dup} "
                           f"appear more than once in the data file", None, case, site=site))
    dead = sorted(set(range(int(cur["traj_num"]))) - set(active))
    missing = [p for p in dead if p not in pns]
    if missing:
        out.append(C._viol(PROP, "replaced_path_row_missing",
                           f"crash at {site}: replaced paths {missing} have no data row", None, case, site=site))
    live_rows = [p for p in pns if p in active]
    if live_rows:
        out.append(C._viol(PROP, "live_path_has_row", f"crash at {site}: live paths {live_rows} have data rows",
                           None, case, site=site))
    if case["scn"].get("stale_data_file"):
        try:
            with open(os.path.join(rundir, "infretis_data.txt")) as fh:
                same = fh.read() == SC.stale_data_content()
        except OSError:
            same = False
        if not same and os.path.basename(dfile) != "infretis_data.txt":
            out.append(C._viol(PROP, "older_data_file_modified",
                               f"crash at {site}: the data file of an earlier run (infretis_data.txt) was "
                               f"changed by a restart that writes {os.path.basename(dfile)}", None, case, site=site))
    for a in active:
        pdir = os.path.join(rundir, cfg["simulation"]["load_dir"], str(a))
        if not os.path.isfile(os.path.join(pdir, "traj.txt")) or not os.path.isfile(os.path.join(pdir, "order.txt")):
            out.append(C._viol(PROP, "live_path_lost_files", f"crash at {site}: path {a}", None, case, site=site))
    return out


def _disk_cstep(rundir):
    cfg = C.read_restart(rundir)
    if cfg in (None, "UNREADABLE"):
        return -1
    return int(cfg["current"]["cstep"])


def _malformed_rows(dfile, n_ens):
    bad = []
    if not os.path.isfile(dfile):
        return bad
    with open(dfile) as fh:
        for line in fh:
            if line.startswith("#") or not line.strip():
                continue
            sp = line.split()
            if len(sp) != 3 + 2 * n_ens:
                bad.append(line[:80])
    return bad


def _restart_from(case, state, N, cum, start_cstep, second=False, depth=0, stats=None):
    """Restart from one crash state and continue; returns list of violations."""
    import numpy as np
    site = _site(state)
    scn = dict(case["scn"], plan=[{"steps": N}])
    c2 = dict(case, scn=scn, inc_timeout=240)          # restarts are short; only phase 1 gets the long limit
    viol = []
    pre_install = _mk_install("snapshot", arm_steps={0, 1, 2}) if second else None
    mons = (lambda c, i: _restart_monitors(c, i) + ([StepMonitor(M.C04Monitor())] if False else []))
    if second:
        def mons(c, i):          # noqa
            c04 = M.C04Monitor()
            return [ReissueMonitor(), c04, StepMonitor(c04)]

    def hist(case_, inc, spec, code, events, end, rundir, res):
        # seed the weight ledger with the idle counts of the steps that are durable in this state
        if res.get("_ledger") is None and cum is not None:
            st = [ev for ev in events if ev["ev"] == "start"]
            if st:
                done = int(st[0]["cstep"]) - start_cstep
                base = np.array([M.LD(x) for x in cum["base"]], dtype=M.LD)
                if done == 0:
                    res["_ledger"] = base
                elif 0 < done <= len(cum["steps"]):
                    res["_ledger"] = base + np.array([M.LD(x) for x in cum["steps"][done - 1]], dtype=M.LD)
                else:
                    res["_nol"] = True
        if res.get("_nol"):
            return []
        return C.history_c04(case_, inc, spec, code, events, end, rundir, res)

    res = SS.run_case(c2, mons, history_checks=hist if cum else None, keep_dir=True,
                      prebuilt=state["dir"], first_inc=state["inc"] + 1, pre_install=pre_install)
    try:
        evs = res["events"]
        died = [e for e in evs if e["ev"] == "died"]
        none = [e for e in evs if e["ev"] == "setup_none"]
        edit = [e for e in evs if e["ev"] == "user_edit_failed"]
        if died:
            viol.append(C._viol(PROP, "restart_fails",
                                f"crash at {site} (step {state['step']}, effect {state['effect']}, "
                                f"{state['kind']} {state['path']}, torn={state['torn']}): restart died with "
                                f"{died[0]['exc']}: {died[0]['msg'][:200]} at {died[0].get('tb')}",
                                None, case, site=site))
        elif none and _disk_cstep(res["rundir"]) < N:
            viol.append(C._viol(PROP, "restart_refused",
                                f"crash at {site} (step {state['step']}, effect {state['effect']}): "
                                f"setup_config returned None", None, case, site=site))
        elif none:
            pass        # the state already holds the finished run: nothing to do is the right answer
        else:
            for v in res["violations"]:
                v = dict(v, site=site)
                if v["prop"] == "C06":
                    v["prop"] = PROP
                if v["prop"] == "C04":
                    v = dict(v, prop=PROP, **{"class": "ledger_" + v["class"]})
                v["known"] = any(e.get("property") == PROP and e.get("class") == v["class"]
                                 and e.get("site") in (None, site) for e in case.get("known", []))
                v["msg"] = f"crash at {site} (step {state['step']}, effect {state['effect']}): " + v["msg"]
                viol.append(v)
            viol.extend(_final_checks(case, state, res["rundir"], res, N, None))
        if stats is not None:
            stats["restarts"] = stats.get("restarts", 0) + 1
            for k2, v2 in res["faults"].items():
                stats.setdefault("faults", {})[k2] = stats.setdefault("faults", {}).get(k2, 0) + v2
        nested = []
        if second and not died and not none:
            for inc_no, mon in (res.get("extra") or {}).items():
                pass
        return viol, res
    finally:
        pass


def run(case):
    import numpy as np
    scn = case["scn"]
    N = scn["steps"]
    rng = random.Random(hash64(case["seed"], "c08"))
    plan = []
    if case.get("pre") == "clean":
        plan.append({"steps": max(scn["workers"], N // 2)})
    elif case.get("pre") == "crash":
        plan.append({"steps": N, "crash": {"kind": "exit", "after": max(1, N // 3)}})
    elif case.get("pre") == "long":
        plan.append({"steps": max(scn["workers"], min(scn.get("long_pre", N // 2), N - 1))})
    plan.append({"steps": N})
    c1 = dict(case, scn=dict(scn, plan=plan))
    roots = []
    violations = []
    sites = set()
    stats = {"restarts": 0, "kill_checked": 0, "second_order": 0, "states": 0, "faults": {}}
    last_inc = len(plan) - 1

    def pre_install(sim, scratch):
        mode = "snapshot" if sim.inc == last_inc else "off"
        seam = FS.FsSeam(sim, scratch, mode=mode)
        seam.install()
        sim.seam = seam

    res1 = SS.run_case(c1, _phase1_monitors, keep_dir=True, pre_install=pre_install)
    roots.append(os.path.dirname(res1["rundir"]))
    try:
        died = [e for e in res1["events"] if e["ev"] == "died"]
        if died:
            raise RuntimeError(f"phase 1 died: {died[0]}")
        extra = None
        start_cstep = 0
        for ev in res1["events"]:
            if ev["ev"] == "start" and ev["inc"] == last_inc:
                start_cstep = ev["cstep"]
        extra = res1.get("extra_last")
        states, kinds = extra["states"], [tuple(k) for k in extra["kinds"]]
        nn = scn["n_intf"] + 1
        base = np.zeros(nn, dtype=M.LD)
        for inc_no, mon in (res1.get("mon") or {}).items():
            if int(inc_no) < last_inc:
                ic = (mon.get("C04Monitor") or {}).get("idle_counts") or []
                if ic:
                    base = base + np.array([M.LD(x) for x in ic], dtype=M.LD)
        cum = {"base": [str(x) for x in base], "steps": extra["cum"]}
        stats["states"] = len(states)
        stats["effects"] = extra["effects"]
        # which steps to restart from
        if case.get("all_steps"):
            steps_sel = None
        else:
            seen, steps_sel = set(), set()
            for i, kd in enumerate(kinds, 1):
                if kd not in seen:
                    seen.add(kd)
                    steps_sel.add(i)
            steps_sel.add(0)
        todo = [s for s in states if steps_sel is None or s["step"] in steps_sel or not s["in_step"]]
        skipped = [s for s in states if s not in todo]
        for s in skipped:
            shutil.rmtree(s["dir"], ignore_errors=True)
        trace1 = res1["trace"]
        import time as _t
        t_case = _t.time()
        # wall-clock cap per case (which crash states get explored within it depends on the machine's load;
        # each explored state is decided deterministically); the determinism self-test lifts it
        case_budget = case.get("case_budget") or (40.0 if not case.get("all_steps") else 900.0)
        rng.shuffle(todo)                   # a truncated case still samples all steps and effect kinds
        for n_done, s in enumerate(todo):
            if _t.time() - t_case > case_budget:
                stats["states_skipped_time"] = len(todo) - n_done
                for s_left in todo[n_done:]:
                    shutil.rmtree(s_left["dir"], ignore_errors=True)
                break
            kd = kinds[s["step"] - 1] if 0 < s["step"] <= len(kinds) and s["in_step"] else ("between",)
            sites.add((kd, s["kind"].split(":")[0], _role(s["path"]), s["torn"] is not None))
            # --- kill cross-validation
            if rng.random() < case.get("kill_p", 0.05) and not s["kind"].startswith("boundary"):
                stats["kill_checked"] += 1
                kd_inst = _mk_install_kill(last_inc, s["effect"], s["torn"])
                ck = dict(c1, decisions=trace1)
                rk = SS.run_case(ck, _phase1_monitors, keep_dir=True, pre_install=kd_inst)
                roots.append(os.path.dirname(rk["rundir"]))
                dg = FS.tree_digest(rk["rundir"])
                kev = [e for e in rk["events"] if e["ev"] == "fs_kill"]
                killed = bool(kev)
                if killed and (kev[0]["kind"], kev[0]["path"]) != (s["kind"], s["path"]):
                    # files of one path are removed in set-iteration order, which depends on the
                    # (absolute, per-run) file names: the two runs are not comparable at this effect
                    stats["kill_unordered_skipped"] = stats.get("kill_unordered_skipped", 0) + 1
                    stats["kill_checked"] -= 1
                elif not killed or dg != s["digest"]:
                    la, lb = FS.tree_listing(s["dir"]), FS.tree_listing(rk["rundir"])
                    diff = sorted(k_ for k_ in set(la) | set(lb) if la.get(k_) != lb.get(k_))
                    # files of one replaced path are removed in set-iteration order, which depends on the
                    # per-run absolute names: the two runs may have removed different members of the set
                    parts = s["path"].split("/")
                    being_deleted = ("/".join(parts[:2]) if s["kind"] == "remove" and len(parts) == 4
                                     and parts[0] == "load" and parts[2] == "accepted" else None)
                    if killed and being_deleted and diff and all(d.startswith(being_deleted + "/") for d in diff):
                        stats["kill_unordered_skipped"] = stats.get("kill_unordered_skipped", 0) + 1
                        stats["kill_checked"] -= 1
                    else:
                        raise RuntimeError(f"snapshot model disagrees with a real kill at effect {s['effect']} "
                                           f"{s['kind']} {s['path']} torn={s['torn']} (killed={killed}): "
                                           f"differing entries {diff[:12]}")
                shutil.rmtree(os.path.dirname(rk["rundir"]), ignore_errors=True)
            second = rng.random() < case.get("second_p", 0.1)
            v, r2 = _restart_from(case, s, N, cum, start_cstep, second=second, stats=stats)
            roots.append(os.path.dirname(r2["rundir"]))
            violations.extend(v)
            if second:
                ex2 = r2.get("extra_last") or {}
                nested = ex2.get("states", [])
                cap2 = 12 if not case.get("all_steps") else 60
                if len(nested) > cap2:
                    keep = set(rng.sample(range(len(nested)), cap2))
                    for n2, s2 in enumerate(nested):
                        if n2 not in keep:
                            shutil.rmtree(s2["dir"], ignore_errors=True)
                    nested = [s2 for n2, s2 in enumerate(nested) if n2 in keep]
                for s2 in nested:
                    stats["second_order"] += 1
                    sites.add((("second",) + tuple(kd), s2["kind"].split(":")[0], _role(s2["path"]),
                               s2["torn"] is not None))
                    v2, r3 = _restart_from(case, s2, N, None, 0, second=False, stats=stats)
                    for x in v2:
                        x["msg"] = "second crash after a restart: " + x["msg"]
                    violations.extend(v2)
                    shutil.rmtree(os.path.dirname(r3["rundir"]), ignore_errors=True)
            shutil.rmtree(os.path.dirname(r2["rundir"]), ignore_errors=True)
            if any(not x.get("known") for x in violations):
                break
        out = {
            "violations": violations, "trace": res1["trace"], "digest": res1["digest"],
            "probes": {"crash_states": stats["states"], "restarted": stats["restarts"],
                       "kill_cross_checked": stats["kill_checked"], "second_order_states": stats["second_order"],
                       "states_skipped_for_time": stats.get("states_skipped_time", 0),
                       "kill_unordered_skipped": stats.get("kill_unordered_skipped", 0),
                       "main_effects": stats.get("effects", 0)},
            "faults": dict(stats["faults"], crash_state_restarted=stats["restarts"],
                           torn_write=sum(1 for s in todo if s["torn"] is not None)),
            "stats": res1["stats"], "sim_time": res1["sim_time"], "ksteps": res1["ksteps"],
            "sig": str(sorted(map(str, sites))), "nontrivial": stats["restarts"] > 0,
            "cov": {"distinct_crash_sites": sorted(map(str, sites)), "crash_states_restarted": stats["restarts"]},
            "sample": {"seed": case["seed"], "scenario": {k: scn[k] for k in ("n_intf", "moves", "workers",
                       "steps", "delete_old", "delete_old_all")}, "pre": case.get("pre"),
                       "step_kinds": [list(k) for k in kinds][:12],
                       "crash_sites": [f"step{s['step']}:{_site(s)}" for s in todo][:40]},
            "evals": stats["restarts"],
        }
        return out
    finally:
        for r in roots:
            shutil.rmtree(r, ignore_errors=True)


def _mk_install_kill(last_inc, effect, torn):
    def pre_install(sim, scratch):
        mode = "kill" if sim.inc == last_inc else "off"
        seam = FS.FsSeam(sim, scratch, mode=mode, kill_at=(effect, torn))
        seam.install()
        sim.seam = seam
    return pre_install


def shrink_candidates(case):
    if case.get("pre"):
        yield dict(case, pre=None)
    for cand in C.shrink_candidates(dict(case, scn=dict(case["scn"], plan=[{"steps": case["scn"]["steps"]}]))):
        s = cand["scn"]
        if len(s["plan"]) != 1 or "crash" in s["plan"][0]:
            continue
        s["steps"] = s["plan"][0]["steps"]
        yield cand


def finalize(coverage, tier):
    coverage["scenarios_run"] = coverage["evaluations"]
    coverage["evaluations"] = int(coverage.get("crash_states_restarted", coverage["evaluations"]))
    coverage["distinct_nontrivial"] = int(coverage.get("distinct_crash_sites", 0))
