"""C17 - exactly the requested number of moves runs; each result is consumed once (part a: scheduler)."""
import random

from checks import sched_common as C
from sim import monitors as M
from sim import scenario as SC
from sim import sched_sim as SS

PROP = "C17"
LEVEL = "exploration"
RULE = ("(a) One case = one history of the real scheduler: (workers, steps, restart points) incl. "
        "restarts with fewer remaining steps than workers, restarts without raising steps, repeated "
        "restarts, crashes. Distinct = completion-order signature + exit pattern; non-trivial = more "
        "than one incarnation or overlapping jobs.")
ASSUMPTIONS = ["scheduler-level part: the runner is SimRunner; the real aiorunner is exercised by the "
               "aio-sim part of this check"]
REAL, STUB = C.REAL, C.STUB


def budget(tier):
    return 75 if tier == "quick" else 1500


def make_case(seed, i, tier):
    rng = random.Random(seed)
    scn = SC.gen_scenario(rng, {"steps_choices": [2, 3, 4, 6, 8, 12], "n_intf_choices": [2, 3, 4, 5],
                                "maxlength": rng.choice([20, 40, 200])})
    kind = rng.choice(["single", "tail", "tail", "clean_chain", "crash_chain", "mixed"])
    scn["plan"] = C.gen_plan(rng, scn, kind)
    return {"seed": seed, "scn": scn, "props": [PROP]}


def monitors(case, inc):
    return [M.C17Monitor()]


def run(case):
    res = SS.run_case(case, monitors, history_checks=C.history_c17)
    res.pop("_c17", None)
    return C.result_from(res, case)


shrink_candidates = C.shrink_candidates
