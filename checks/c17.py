"""C17 - exactly the requested number of moves runs; each result is consumed once (part a: scheduler)."""
import random

from checks import sched_common as C
from sim import monitors as M
from sim import scenario as SC
from sim import sched_sim as SS

PROP = "C17"
LEVEL = "exploration"
RULE = ("Three kinds of cases, interleaved: (a) one history of the real scheduler under SimRunner: "
        "(workers, steps, restart points) incl. restarts with fewer remaining steps than workers, idle "
        "restarts, repeated restarts, crashes; (b) the real aiorunner/future_list single-threaded under a "
        "virtual-time event loop: 1-6 worker tasks, 0-40 units with durations from 0 to longer than every "
        "timeout in the module, failing units, submit bursts, stop() with work queued or in flight, "
        "stalled background thread; every scheduling decision (which loop turns, which completion fires) "
        "is the kernel's; (c) full stack: real scheduler + real aiorunner + simulated executor. Distinct "
        "= signature of the sequence of (event kind) turns / completion orders; non-trivial = >= 2 units "
        "overlapped or a unit failed (b), several workers or incarnations (a, c).")
ASSUMPTIONS = ["(b), (c): pre-emption granularity is 'between main-thread calls into the runner API and at "
               "every blocking or polling call' - statement-level thread pre-emption inside asyncio.Queue "
               "is not explored",
               "process pool replaced by SimExecutor (completion at seeded virtual time, unit body run "
               "in-process, pickle round trip in part c)"]
REAL = C.REAL + ["infretis.asyncrunner.aiorunner and future_list (parts b, c), asyncio.Queue/Event/Task/"
                  "sleep/run_in_executor and BaseEventLoop._run_once"]
STUB = C.STUB + ["parts b, c: OS thread of the runner -> kernel-pumped pseudo-thread; selector -> null selector "
                 "with virtual clock; ProcessPoolExecutor -> SimExecutor; time.sleep -> virtual sleep"]


def budget(tier):
    return 75 if tier == "quick" else 1500


def make_case(seed, i, tier):
    rng = random.Random(seed)
    part = ["a", "b", "b", "a", "b", "c", "a", "b"][i % 8]
    if part == "b":
        from checks import c17b
        return {"seed": seed, "part": "b", "wl": c17b.gen_workload(rng), "props": [PROP]}
    if part == "c":
        scn = SC.gen_scenario(rng, {"steps_choices": [3, 4, 6, 8], "n_intf_choices": [2, 3, 4],
                                    "maxlength": 40, "screen": 0, "pattern": False})
        scn["plan"] = C.gen_plan(rng, scn, rng.choice(["single", "tail", "clean_chain"]))
        scn["plan"] = [p for p in scn["plan"] if "crash" not in p]
        return {"seed": seed, "part": "c", "scn": scn, "props": [PROP],
                "stall_p": rng.choice([0.0, 0.0, 0.2])}
    scn = SC.gen_scenario(rng, {"steps_choices": [2, 3, 4, 6, 8, 12], "n_intf_choices": [2, 3, 4, 5],
                                "maxlength": rng.choice([20, 40, 200])})
    kind = rng.choice(["single", "tail", "tail", "clean_chain", "crash_chain", "mixed"])
    scn["plan"] = C.gen_plan(rng, scn, kind)
    return {"seed": seed, "scn": scn, "props": [PROP]}


def monitors(case, inc):
    return [M.C17Monitor()]


def run(case):
    part = case.get("part", "a")
    if part == "b":
        from checks import c17b
        viol, info = c17b.run_workload(case)
        wl = case["wl"]
        return {"violations": viol, "trace": info["trace"], "digest": str(info["sig"]),
                "probes": {"runner_lifecycles": 1, "units": info.get("executed", 0)},
                "faults": info["faults"], "stats": {}, "sim_time": info["sim_time"],
                "ksteps": info["ksteps"], "sig": "b" + str(info["sig"]),
                "nontrivial": bool(info.get("overlap")) or any(u["fail"] for u in wl["units"]),
                "sample": {"part": "b", "seed": case["seed"], "n_workers": wl["n_workers"],
                           "pattern": wl["pattern"], "units": wl["units"][:10], "stop_s": info.get("t_stop")}}
    if part == "c":
        from checks import c17b
        viol, infos = c17b.run_fullstack(case)
        return {"violations": viol, "trace": [t for o in infos for t in o.get("trace", [])],
                "digest": str([o.get("sig") for o in infos]),
                "probes": {"fullstack_incarnations": len(infos)},
                "faults": {}, "stats": {}, "sim_time": sum(o.get("sim_time", 0) for o in infos),
                "ksteps": sum(o.get("ksteps", 0) for o in infos),
                "sig": "c" + str([o.get("sig") for o in infos]),
                "nontrivial": case["scn"]["workers"] > 1 or len(case["scn"]["plan"]) > 1,
                "sample": {"part": "c", "seed": case["seed"], "workers": case["scn"]["workers"],
                           "plan": case["scn"]["plan"],
                           "incarnations": [{k: o.get(k) for k in ("start_cstep", "cstep", "submitted", "executed",
                                                                    "max_running")} for o in infos]}}
    res = SS.run_case(case, monitors, history_checks=C.history_c17)
    res.pop("_c17", None)
    return C.result_from(res, case)


def shrink_candidates(case):
    part = case.get("part", "a")
    if part == "b":
        wl = case["wl"]
        units = wl["units"]
        for i in range(len(units)):
            yield dict(case, wl=dict(wl, units=units[:i] + units[i + 1:]))
        if wl["n_workers"] > 1:
            yield dict(case, wl=dict(wl, n_workers=wl["n_workers"] - 1))
        for i, u in enumerate(units):
            if u["dur"] > 0:
                u2 = units[:i] + [dict(u, dur=0.0)] + units[i + 1:]
                yield dict(case, wl=dict(wl, units=u2))
            if u["fail"]:
                u2 = units[:i] + [dict(u, fail=False)] + units[i + 1:]
                yield dict(case, wl=dict(wl, units=u2))
        if wl["stall_p"]:
            yield dict(case, wl=dict(wl, stall_p=0.0))
        if wl["pattern"] != "scheduler":
            yield dict(case, wl=dict(wl, pattern="scheduler"))
        return
    for cand in C.shrink_candidates(case):
        if part == "c" and any("crash" in p for p in cand["scn"]["plan"]):
            continue
        yield cand
