"""C14 - stored paths read back unchanged; live paths never lose files."""
import random

from checks import sched_common as C
from sim import monitors as M
from sim import scenario as SC
from sim import sched_sim as SS

PROP = "C14"
LEVEL = "exploration"
RULE = ("One case = one simulated accept/reject history (real scheduler, real PathStorage and delete_old "
        "code, lattice engine: multi-file paths with reversed frames) with delete_old / delete_old_all "
        "settings, 1..ensembles-1 workers, restarts. After every treat_output each newly stored path is "
        "loaded back and compared, every live / in-flight / restart-listed path must have its files, "
        "initial paths are hashed, and a replaced path's files may only vanish after the lag. Distinct = "
        "completion-order signature + exit pattern; non-trivial = at least one stored path was read back "
        "and (with delete_old) at least one deletion observed or several workers.")
ASSUMPTIONS = ["lag of the reference tree: a replaced non-initial path is deleted at the E-th further "
               "stored replacement of a non-initial path (E = number of ensembles); a restart empties the "
               "queue, which only lengthens the lag"]
REAL, STUB = C.REAL, C.STUB


def budget(tier):
    return 75 if tier == "quick" else 1500


def make_case(seed, i, tier):
    rng = random.Random(seed)
    prof = {"delete_old": rng.random() < 0.75, "steps_choices": [16, 24, 40, 60, 90],
            "n_intf_choices": [2, 3, 3, 4, 5], "maxlength": rng.choice([20, 40, 200])}
    if rng.random() < 0.1:
        prof.update(engine="turtlemd", steps_choices=[12, 20], maxlength=2000)    # energies, xyz files
    elif rng.random() < 0.3:
        prof["keep_aux"] = True       # output.keep_traj_fnames: extra files travel with the trajectory files
    scn = SC.gen_scenario(rng, prof)
    scn["abs_load_dir"] = scn["engine"] == "lattice" and rng.random() < 0.2      # absolute simulation.load_dir
    scn["plan"] = C.gen_plan(rng, scn, rng.choice(["single", "single", "clean_chain", "crash_chain"]))
    return {"seed": seed, "scn": scn, "props": [PROP]}


class StorageDeathMonitor(SS.Monitor):
    """The main process dying of a file-system error inside its own storage / deletion code."""

    def on_died(self, exc):
        import traceback
        if "injected worker failure" in str(exc) or not isinstance(exc, OSError):
            return
        tb = traceback.extract_tb(exc.__traceback__)
        inside = [f for f in tb if f.filename.endswith(("repex.py", "formatter.py")) and
                  f.name in ("treat_output", "output", "_move_path", "output_path_files")]
        if inside:
            self.sim.violate("C14", "storage_operation_killed_run",
                             f"{type(exc).__name__}: {exc} at {SS._short_tb(exc)} (delete_old="
                             f"{self.sim.scn.get('delete_old')}, delete_old_all={self.sim.scn.get('delete_old_all')}, "
                             f"keep_traj_fnames={'.aux' if self.sim.scn.get('keep_aux') else None})",
                             site="delete_old_all+keep_traj_fnames" if self.sim.scn.get("keep_aux") else None)


def monitors(case, inc):
    return [M.C14Monitor(), StorageDeathMonitor()]


def run(case):
    res = SS.run_case(case, monitors)
    mons = [m.get("C14Monitor") or {} for m in (res.get("mon") or {}).values()]
    loaded = sum(m.get("loaded", 0) for m in mons)
    deleted = sum(m.get("deleted_seen", 0) for m in mons)
    out = C.result_from(res, case, lambda r, c: loaded > 0 and (deleted > 0 or c["scn"]["workers"] > 1))
    out["cov"] = {"paths_read_back": loaded, "deletions_observed": deleted,
                  "files_checked": sum(m.get("files_checked", 0) for m in mons)}
    return out


shrink_candidates = C.shrink_candidates
