import os
import sys

sys.path.insert(0, os.path.dirname(os.path.abspath(__file__)))
from checks.driver import main  # noqa: E402

sys.exit(main())
